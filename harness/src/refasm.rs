//! Reference assembler pieces, written from the LC-3 ISA description and independent of the
//! crate's `join_bits`-style encoder: a bit-layout table drives both encoding and decoding.
#![allow(dead_code)]

#[derive(Clone, Copy, Debug, PartialEq, Eq, Hash)]
pub enum RO { Reg(u8), Imm(i16) }

/// Reference (bytecode-level) instruction.
#[derive(Clone, Copy, Debug, PartialEq, Eq, Hash)]
pub enum RI {
    Br(u8, i16), Add(u8, u8, RO), And(u8, u8, RO), Ld(u8, i16), St(u8, i16), Jsr(i16), Jsrr(u8),
    Ldr(u8, u8, i16), Str(u8, u8, i16), Rti, Not(u8, u8), Ldi(u8, i16), Sti(u8, i16), Jmp(u8),
    Lea(u8, i16), Trap(u8),
}

#[derive(Clone, Copy, Debug, PartialEq, Eq)]
pub enum DecErr { IllegalOpcode, InvalidFormat }

/// One field of a layout: (lowest bit, width, signed)
#[derive(Clone, Copy)]
pub struct Field { pub lo: u32, pub width: u32, pub signed: bool }

pub struct Layout {
    pub name: &'static str,
    /// 16 characters, MSB first: '0'/'1' fixed, letters name fields (contiguous runs)
    pub pattern: &'static str,
    /// which field letters are signed
    pub signed: &'static str,
}

/// LC-3 instruction formats (Patt & Patel, appendix A).
pub const LAYOUTS: &[Layout] = &[
    Layout { name: "BR",   pattern: "0000cccooooooooo", signed: "o" },
    Layout { name: "ADDr", pattern: "0001dddsss000ttt", signed: "" },
    Layout { name: "ADDi", pattern: "0001dddsss1iiiii", signed: "i" },
    Layout { name: "LD",   pattern: "0010dddooooooooo", signed: "o" },
    Layout { name: "ST",   pattern: "0011dddooooooooo", signed: "o" },
    Layout { name: "JSR",  pattern: "01001ooooooooooo", signed: "o" },
    Layout { name: "JSRR", pattern: "0100000sss000000", signed: "" },
    Layout { name: "ANDr", pattern: "0101dddsss000ttt", signed: "" },
    Layout { name: "ANDi", pattern: "0101dddsss1iiiii", signed: "i" },
    Layout { name: "LDR",  pattern: "0110dddsssoooooo", signed: "o" },
    Layout { name: "STR",  pattern: "0111dddsssoooooo", signed: "o" },
    Layout { name: "RTI",  pattern: "1000000000000000", signed: "" },
    Layout { name: "NOT",  pattern: "1001dddsss111111", signed: "" },
    Layout { name: "LDI",  pattern: "1010dddooooooooo", signed: "o" },
    Layout { name: "STI",  pattern: "1011dddooooooooo", signed: "o" },
    Layout { name: "JMP",  pattern: "1100000sss000000", signed: "" },
    Layout { name: "LEA",  pattern: "1110dddooooooooo", signed: "o" },
    Layout { name: "TRAP", pattern: "11110000vvvvvvvv", signed: "" },
];

impl Layout {
    pub fn mask_bits(&self) -> (u16, u16) {
        let (mut mask, mut bits) = (0u16, 0u16);
        for (i, ch) in self.pattern.chars().enumerate() {
            let b = 15 - i as u32;
            match ch { '0' => mask |= 1 << b, '1' => { mask |= 1 << b; bits |= 1 << b; } _ => {} }
        }
        (mask, bits)
    }
    pub fn field(&self, letter: char) -> Option<Field> {
        let idx: Vec<usize> = self.pattern.chars().enumerate().filter(|(_, c)| *c == letter).map(|(i, _)| i).collect();
        if idx.is_empty() { return None; }
        let hi = 15 - idx[0] as u32;
        let lo = 15 - idx[idx.len() - 1] as u32;
        Some(Field { lo, width: hi - lo + 1, signed: self.signed.contains(letter) })
    }
    pub fn get(&self, w: u16, letter: char) -> i32 {
        let f = self.field(letter).expect("field");
        let raw = ((w >> f.lo) & ((1u32 << f.width) - 1) as u16) as i32;
        if f.signed && raw >= (1 << (f.width - 1)) { raw - (1 << f.width) } else { raw }
    }
    pub fn put(&self, w: &mut u16, letter: char, v: i32) {
        let f = self.field(letter).expect("field");
        let m = ((1u32 << f.width) - 1) as u16;
        *w = (*w & !(m << f.lo)) | (((v as u16) & m) << f.lo);
    }
    pub fn free_bits(&self) -> u32 { self.pattern.chars().filter(|c| *c != '0' && *c != '1').count() as u32 }
}

pub fn layout(name: &str) -> &'static Layout { LAYOUTS.iter().find(|l| l.name == name).expect("layout") }

pub fn find_layout(w: u16) -> Option<&'static Layout> {
    LAYOUTS.iter().find(|l| { let (m, b) = l.mask_bits(); w & m == b })
}

pub fn decode_ref(w: u16) -> Result<RI, DecErr> {
    if w >> 12 == 0b1101 { return Err(DecErr::IllegalOpcode); }
    let Some(l) = find_layout(w) else { return Err(DecErr::InvalidFormat) };
    let g = |c| l.get(w, c);
    Ok(match l.name {
        "BR" => RI::Br(g('c') as u8, g('o') as i16),
        "ADDr" => RI::Add(g('d') as u8, g('s') as u8, RO::Reg(g('t') as u8)),
        "ADDi" => RI::Add(g('d') as u8, g('s') as u8, RO::Imm(g('i') as i16)),
        "LD" => RI::Ld(g('d') as u8, g('o') as i16),
        "ST" => RI::St(g('d') as u8, g('o') as i16),
        "JSR" => RI::Jsr(g('o') as i16),
        "JSRR" => RI::Jsrr(g('s') as u8),
        "ANDr" => RI::And(g('d') as u8, g('s') as u8, RO::Reg(g('t') as u8)),
        "ANDi" => RI::And(g('d') as u8, g('s') as u8, RO::Imm(g('i') as i16)),
        "LDR" => RI::Ldr(g('d') as u8, g('s') as u8, g('o') as i16),
        "STR" => RI::Str(g('d') as u8, g('s') as u8, g('o') as i16),
        "RTI" => RI::Rti,
        "NOT" => RI::Not(g('d') as u8, g('s') as u8),
        "LDI" => RI::Ldi(g('d') as u8, g('o') as i16),
        "STI" => RI::Sti(g('d') as u8, g('o') as i16),
        "JMP" => RI::Jmp(g('s') as u8),
        "LEA" => RI::Lea(g('d') as u8, g('o') as i16),
        "TRAP" => RI::Trap(g('v') as u8),
        _ => unreachable!(),
    })
}

pub fn encode_ref(i: &RI) -> u16 {
    let mk = |name: &str, fs: &[(char, i32)]| -> u16 {
        let l = layout(name);
        let (_, mut w) = l.mask_bits();
        for &(c, v) in fs { l.put(&mut w, c, v); }
        w
    };
    match *i {
        RI::Br(c, o) => mk("BR", &[('c', c as i32), ('o', o as i32)]),
        RI::Add(d, s, RO::Reg(t)) => mk("ADDr", &[('d', d as i32), ('s', s as i32), ('t', t as i32)]),
        RI::Add(d, s, RO::Imm(v)) => mk("ADDi", &[('d', d as i32), ('s', s as i32), ('i', v as i32)]),
        RI::And(d, s, RO::Reg(t)) => mk("ANDr", &[('d', d as i32), ('s', s as i32), ('t', t as i32)]),
        RI::And(d, s, RO::Imm(v)) => mk("ANDi", &[('d', d as i32), ('s', s as i32), ('i', v as i32)]),
        RI::Ld(d, o) => mk("LD", &[('d', d as i32), ('o', o as i32)]),
        RI::St(d, o) => mk("ST", &[('d', d as i32), ('o', o as i32)]),
        RI::Jsr(o) => mk("JSR", &[('o', o as i32)]),
        RI::Jsrr(s) => mk("JSRR", &[('s', s as i32)]),
        RI::Ldr(d, s, o) => mk("LDR", &[('d', d as i32), ('s', s as i32), ('o', o as i32)]),
        RI::Str(d, s, o) => mk("STR", &[('d', d as i32), ('s', s as i32), ('o', o as i32)]),
        RI::Rti => mk("RTI", &[]),
        RI::Not(d, s) => mk("NOT", &[('d', d as i32), ('s', s as i32)]),
        RI::Ldi(d, o) => mk("LDI", &[('d', d as i32), ('o', o as i32)]),
        RI::Sti(d, o) => mk("STI", &[('d', d as i32), ('o', o as i32)]),
        RI::Jmp(s) => mk("JMP", &[('s', s as i32)]),
        RI::Lea(d, o) => mk("LEA", &[('d', d as i32), ('o', o as i32)]),
        RI::Trap(v) => mk("TRAP", &[('v', v as i32)]),
    }
}

pub fn ri_name(i: &RI) -> &'static str {
    match i {
        RI::Br(..) => "BR", RI::Add(_, _, RO::Reg(_)) => "ADDr", RI::Add(..) => "ADDi", RI::And(_, _, RO::Reg(_)) => "ANDr",
        RI::And(..) => "ANDi", RI::Ld(..) => "LD", RI::St(..) => "ST", RI::Jsr(..) => "JSR", RI::Jsrr(..) => "JSRR",
        RI::Ldr(..) => "LDR", RI::Str(..) => "STR", RI::Rti => "RTI", RI::Not(..) => "NOT", RI::Ldi(..) => "LDI",
        RI::Sti(..) => "STI", RI::Jmp(..) => "JMP", RI::Lea(..) => "LEA", RI::Trap(..) => "TRAP",
    }
}

// ---- bridges to the crate's types (used only to compare, never to compute expectations) ----
use lc3_ensemble::ast::sim::SimInstr;
use lc3_ensemble::ast::{ImmOrReg, Offset, Reg};

pub fn reg(n: u8) -> Reg { Reg::try_from(n & 7).unwrap() }

pub fn from_sim(i: &SimInstr) -> RI {
    let ro = |x: &ImmOrReg<5>| match x { ImmOrReg::Imm(v) => RO::Imm(v.get()), ImmOrReg::Reg(r) => RO::Reg(r.reg_no()) };
    match i {
        SimInstr::BR(c, o) => RI::Br(*c, o.get()),
        SimInstr::ADD(d, s, x) => RI::Add(d.reg_no(), s.reg_no(), ro(x)),
        SimInstr::AND(d, s, x) => RI::And(d.reg_no(), s.reg_no(), ro(x)),
        SimInstr::LD(d, o) => RI::Ld(d.reg_no(), o.get()),
        SimInstr::ST(d, o) => RI::St(d.reg_no(), o.get()),
        SimInstr::JSR(ImmOrReg::Imm(o)) => RI::Jsr(o.get()),
        SimInstr::JSR(ImmOrReg::Reg(r)) => RI::Jsrr(r.reg_no()),
        SimInstr::LDR(d, s, o) => RI::Ldr(d.reg_no(), s.reg_no(), o.get()),
        SimInstr::STR(d, s, o) => RI::Str(d.reg_no(), s.reg_no(), o.get()),
        SimInstr::RTI => RI::Rti,
        SimInstr::NOT(d, s) => RI::Not(d.reg_no(), s.reg_no()),
        SimInstr::LDI(d, o) => RI::Ldi(d.reg_no(), o.get()),
        SimInstr::STI(d, o) => RI::Sti(d.reg_no(), o.get()),
        SimInstr::JMP(r) => RI::Jmp(r.reg_no()),
        SimInstr::LEA(d, o) => RI::Lea(d.reg_no(), o.get()),
        SimInstr::TRAP(v) => RI::Trap(v.get() as u8),
    }
}

/// Builds the crate's `SimInstr` for a reference instruction (None if the crate's checked
/// constructors refuse a value the reference considers representable).
pub fn to_sim(i: &RI) -> Option<SimInstr> {
    fn off<const N: u32>(v: i16) -> Option<Offset<i16, N>> { Offset::<i16, N>::new(v).ok() }
    let ro = |x: RO| -> Option<ImmOrReg<5>> { Some(match x { RO::Reg(r) => ImmOrReg::Reg(reg(r)), RO::Imm(v) => ImmOrReg::Imm(off::<5>(v)?) }) };
    Some(match *i {
        RI::Br(c, o) => SimInstr::BR(c, off::<9>(o)?),
        RI::Add(d, s, x) => SimInstr::ADD(reg(d), reg(s), ro(x)?),
        RI::And(d, s, x) => SimInstr::AND(reg(d), reg(s), ro(x)?),
        RI::Ld(d, o) => SimInstr::LD(reg(d), off::<9>(o)?),
        RI::St(d, o) => SimInstr::ST(reg(d), off::<9>(o)?),
        RI::Jsr(o) => SimInstr::JSR(ImmOrReg::Imm(off::<11>(o)?)),
        RI::Jsrr(r) => SimInstr::JSR(ImmOrReg::Reg(reg(r))),
        RI::Ldr(d, s, o) => SimInstr::LDR(reg(d), reg(s), off::<6>(o)?),
        RI::Str(d, s, o) => SimInstr::STR(reg(d), reg(s), off::<6>(o)?),
        RI::Rti => SimInstr::RTI,
        RI::Not(d, s) => SimInstr::NOT(reg(d), reg(s)),
        RI::Ldi(d, o) => SimInstr::LDI(reg(d), off::<9>(o)?),
        RI::Sti(d, o) => SimInstr::STI(reg(d), off::<9>(o)?),
        RI::Jmp(r) => SimInstr::JMP(reg(r)),
        RI::Lea(d, o) => SimInstr::LEA(reg(d), off::<9>(o)?),
        RI::Trap(v) => SimInstr::TRAP(Offset::<u16, 8>::new(v as u16).ok()?),
    })
}

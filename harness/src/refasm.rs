//! Reference assembler pieces, written from the LC-3 ISA description and independent of the
//! crate's `join_bits`-style encoder: a bit-layout table drives both encoding and decoding.
#![allow(dead_code)]

#[derive(Clone, Copy, Debug, PartialEq, Eq, Hash)]
pub enum RO { Reg(u8), Imm(i16) }

/// Reference (bytecode-level) instruction.
#[derive(Clone, Copy, Debug, PartialEq, Eq, Hash)]
pub enum RI {
    Br(u8, i16), Add(u8, u8, RO), And(u8, u8, RO), Ld(u8, i16), St(u8, i16), Jsr(i16), Jsrr(u8),
    Ldr(u8, u8, i16), Str(u8, u8, i16), Rti, Not(u8, u8), Ldi(u8, i16), Sti(u8, i16), Jmp(u8),
    Lea(u8, i16), Trap(u8),
}

#[derive(Clone, Copy, Debug, PartialEq, Eq)]
pub enum DecErr { IllegalOpcode, InvalidFormat }

/// One field of a layout: (lowest bit, width, signed)
#[derive(Clone, Copy)]
pub struct Field { pub lo: u32, pub width: u32, pub signed: bool }

pub struct Layout {
    pub name: &'static str,
    /// 16 characters, MSB first: '0'/'1' fixed, letters name fields (contiguous runs)
    pub pattern: &'static str,
    /// which field letters are signed
    pub signed: &'static str,
}

/// LC-3 instruction formats (Patt & Patel, appendix A).
pub const LAYOUTS: &[Layout] = &[
    Layout { name: "BR",   pattern: "0000cccooooooooo", signed: "o" },
    Layout { name: "ADDr", pattern: "0001dddsss000ttt", signed: "" },
    Layout { name: "ADDi", pattern: "0001dddsss1iiiii", signed: "i" },
    Layout { name: "LD",   pattern: "0010dddooooooooo", signed: "o" },
    Layout { name: "ST",   pattern: "0011dddooooooooo", signed: "o" },
    Layout { name: "JSR",  pattern: "01001ooooooooooo", signed: "o" },
    Layout { name: "JSRR", pattern: "0100000sss000000", signed: "" },
    Layout { name: "ANDr", pattern: "0101dddsss000ttt", signed: "" },
    Layout { name: "ANDi", pattern: "0101dddsss1iiiii", signed: "i" },
    Layout { name: "LDR",  pattern: "0110dddsssoooooo", signed: "o" },
    Layout { name: "STR",  pattern: "0111dddsssoooooo", signed: "o" },
    Layout { name: "RTI",  pattern: "1000000000000000", signed: "" },
    Layout { name: "NOT",  pattern: "1001dddsss111111", signed: "" },
    Layout { name: "LDI",  pattern: "1010dddooooooooo", signed: "o" },
    Layout { name: "STI",  pattern: "1011dddooooooooo", signed: "o" },
    Layout { name: "JMP",  pattern: "1100000sss000000", signed: "" },
    Layout { name: "LEA",  pattern: "1110dddooooooooo", signed: "o" },
    Layout { name: "TRAP", pattern: "11110000vvvvvvvv", signed: "" },
];

impl Layout {
    pub fn mask_bits(&self) -> (u16, u16) {
        let (mut mask, mut bits) = (0u16, 0u16);
        for (i, ch) in self.pattern.chars().enumerate() {
            let b = 15 - i as u32;
            match ch { '0' => mask |= 1 << b, '1' => { mask |= 1 << b; bits |= 1 << b; } _ => {} }
        }
        (mask, bits)
    }
    pub fn field(&self, letter: char) -> Option<Field> {
        let idx: Vec<usize> = self.pattern.chars().enumerate().filter(|(_, c)| *c == letter).map(|(i, _)| i).collect();
        if idx.is_empty() { return None; }
        let hi = 15 - idx[0] as u32;
        let lo = 15 - idx[idx.len() - 1] as u32;
        Some(Field { lo, width: hi - lo + 1, signed: self.signed.contains(letter) })
    }
    pub fn get(&self, w: u16, letter: char) -> i32 {
        let f = self.field(letter).expect("field");
        let raw = ((w >> f.lo) & ((1u32 << f.width) - 1) as u16) as i32;
        if f.signed && raw >= (1 << (f.width - 1)) { raw - (1 << f.width) } else { raw }
    }
    pub fn put(&self, w: &mut u16, letter: char, v: i32) {
        let f = self.field(letter).expect("field");
        let m = ((1u32 << f.width) - 1) as u16;
        *w = (*w & !(m << f.lo)) | (((v as u16) & m) << f.lo);
    }
    pub fn free_bits(&self) -> u32 { self.pattern.chars().filter(|c| *c != '0' && *c != '1').count() as u32 }
}

pub fn layout(name: &str) -> &'static Layout { LAYOUTS.iter().find(|l| l.name == name).expect("layout") }

pub fn find_layout(w: u16) -> Option<&'static Layout> {
    LAYOUTS.iter().find(|l| { let (m, b) = l.mask_bits(); w & m == b })
}

pub fn decode_ref(w: u16) -> Result<RI, DecErr> {
    if w >> 12 == 0b1101 { return Err(DecErr::IllegalOpcode); }
    let Some(l) = find_layout(w) else { return Err(DecErr::InvalidFormat) };
    let g = |c| l.get(w, c);
    Ok(match l.name {
        "BR" => RI::Br(g('c') as u8, g('o') as i16),
        "ADDr" => RI::Add(g('d') as u8, g('s') as u8, RO::Reg(g('t') as u8)),
        "ADDi" => RI::Add(g('d') as u8, g('s') as u8, RO::Imm(g('i') as i16)),
        "LD" => RI::Ld(g('d') as u8, g('o') as i16),
        "ST" => RI::St(g('d') as u8, g('o') as i16),
        "JSR" => RI::Jsr(g('o') as i16),
        "JSRR" => RI::Jsrr(g('s') as u8),
        "ANDr" => RI::And(g('d') as u8, g('s') as u8, RO::Reg(g('t') as u8)),
        "ANDi" => RI::And(g('d') as u8, g('s') as u8, RO::Imm(g('i') as i16)),
        "LDR" => RI::Ldr(g('d') as u8, g('s') as u8, g('o') as i16),
        "STR" => RI::Str(g('d') as u8, g('s') as u8, g('o') as i16),
        "RTI" => RI::Rti,
        "NOT" => RI::Not(g('d') as u8, g('s') as u8),
        "LDI" => RI::Ldi(g('d') as u8, g('o') as i16),
        "STI" => RI::Sti(g('d') as u8, g('o') as i16),
        "JMP" => RI::Jmp(g('s') as u8),
        "LEA" => RI::Lea(g('d') as u8, g('o') as i16),
        "TRAP" => RI::Trap(g('v') as u8),
        _ => unreachable!(),
    })
}

pub fn encode_ref(i: &RI) -> u16 {
    let mk = |name: &str, fs: &[(char, i32)]| -> u16 {
        let l = layout(name);
        let (_, mut w) = l.mask_bits();
        for &(c, v) in fs { l.put(&mut w, c, v); }
        w
    };
    match *i {
        RI::Br(c, o) => mk("BR", &[('c', c as i32), ('o', o as i32)]),
        RI::Add(d, s, RO::Reg(t)) => mk("ADDr", &[('d', d as i32), ('s', s as i32), ('t', t as i32)]),
        RI::Add(d, s, RO::Imm(v)) => mk("ADDi", &[('d', d as i32), ('s', s as i32), ('i', v as i32)]),
        RI::And(d, s, RO::Reg(t)) => mk("ANDr", &[('d', d as i32), ('s', s as i32), ('t', t as i32)]),
        RI::And(d, s, RO::Imm(v)) => mk("ANDi", &[('d', d as i32), ('s', s as i32), ('i', v as i32)]),
        RI::Ld(d, o) => mk("LD", &[('d', d as i32), ('o', o as i32)]),
        RI::St(d, o) => mk("ST", &[('d', d as i32), ('o', o as i32)]),
        RI::Jsr(o) => mk("JSR", &[('o', o as i32)]),
        RI::Jsrr(s) => mk("JSRR", &[('s', s as i32)]),
        RI::Ldr(d, s, o) => mk("LDR", &[('d', d as i32), ('s', s as i32), ('o', o as i32)]),
        RI::Str(d, s, o) => mk("STR", &[('d', d as i32), ('s', s as i32), ('o', o as i32)]),
        RI::Rti => mk("RTI", &[]),
        RI::Not(d, s) => mk("NOT", &[('d', d as i32), ('s', s as i32)]),
        RI::Ldi(d, o) => mk("LDI", &[('d', d as i32), ('o', o as i32)]),
        RI::Sti(d, o) => mk("STI", &[('d', d as i32), ('o', o as i32)]),
        RI::Jmp(s) => mk("JMP", &[('s', s as i32)]),
        RI::Lea(d, o) => mk("LEA", &[('d', d as i32), ('o', o as i32)]),
        RI::Trap(v) => mk("TRAP", &[('v', v as i32)]),
    }
}

pub fn ri_name(i: &RI) -> &'static str {
    match i {
        RI::Br(..) => "BR", RI::Add(_, _, RO::Reg(_)) => "ADDr", RI::Add(..) => "ADDi", RI::And(_, _, RO::Reg(_)) => "ANDr",
        RI::And(..) => "ANDi", RI::Ld(..) => "LD", RI::St(..) => "ST", RI::Jsr(..) => "JSR", RI::Jsrr(..) => "JSRR",
        RI::Ldr(..) => "LDR", RI::Str(..) => "STR", RI::Rti => "RTI", RI::Not(..) => "NOT", RI::Ldi(..) => "LDI",
        RI::Sti(..) => "STI", RI::Jmp(..) => "JMP", RI::Lea(..) => "LEA", RI::Trap(..) => "TRAP",
    }
}

// ---- bridges to the crate's types (used only to compare, never to compute expectations) ----
use lc3_ensemble::ast::sim::SimInstr;
use lc3_ensemble::ast::{ImmOrReg, Offset, Reg};

pub fn reg(n: u8) -> Reg { Reg::try_from(n & 7).unwrap() }

pub fn from_sim(i: &SimInstr) -> RI {
    let ro = |x: &ImmOrReg<5>| match x { ImmOrReg::Imm(v) => RO::Imm(v.get()), ImmOrReg::Reg(r) => RO::Reg(r.reg_no()) };
    match i {
        SimInstr::BR(c, o) => RI::Br(*c, o.get()),
        SimInstr::ADD(d, s, x) => RI::Add(d.reg_no(), s.reg_no(), ro(x)),
        SimInstr::AND(d, s, x) => RI::And(d.reg_no(), s.reg_no(), ro(x)),
        SimInstr::LD(d, o) => RI::Ld(d.reg_no(), o.get()),
        SimInstr::ST(d, o) => RI::St(d.reg_no(), o.get()),
        SimInstr::JSR(ImmOrReg::Imm(o)) => RI::Jsr(o.get()),
        SimInstr::JSR(ImmOrReg::Reg(r)) => RI::Jsrr(r.reg_no()),
        SimInstr::LDR(d, s, o) => RI::Ldr(d.reg_no(), s.reg_no(), o.get()),
        SimInstr::STR(d, s, o) => RI::Str(d.reg_no(), s.reg_no(), o.get()),
        SimInstr::RTI => RI::Rti,
        SimInstr::NOT(d, s) => RI::Not(d.reg_no(), s.reg_no()),
        SimInstr::LDI(d, o) => RI::Ldi(d.reg_no(), o.get()),
        SimInstr::STI(d, o) => RI::Sti(d.reg_no(), o.get()),
        SimInstr::JMP(r) => RI::Jmp(r.reg_no()),
        SimInstr::LEA(d, o) => RI::Lea(d.reg_no(), o.get()),
        SimInstr::TRAP(v) => RI::Trap(v.get() as u8),
    }
}

/// Builds the crate's `SimInstr` for a reference instruction (None if the crate's checked
/// constructors refuse a value the reference considers representable).
pub fn to_sim(i: &RI) -> Option<SimInstr> {
    fn off<const N: u32>(v: i16) -> Option<Offset<i16, N>> { Offset::<i16, N>::new(v).ok() }
    let ro = |x: RO| -> Option<ImmOrReg<5>> { Some(match x { RO::Reg(r) => ImmOrReg::Reg(reg(r)), RO::Imm(v) => ImmOrReg::Imm(off::<5>(v)?) }) };
    Some(match *i {
        RI::Br(c, o) => SimInstr::BR(c, off::<9>(o)?),
        RI::Add(d, s, x) => SimInstr::ADD(reg(d), reg(s), ro(x)?),
        RI::And(d, s, x) => SimInstr::AND(reg(d), reg(s), ro(x)?),
        RI::Ld(d, o) => SimInstr::LD(reg(d), off::<9>(o)?),
        RI::St(d, o) => SimInstr::ST(reg(d), off::<9>(o)?),
        RI::Jsr(o) => SimInstr::JSR(ImmOrReg::Imm(off::<11>(o)?)),
        RI::Jsrr(r) => SimInstr::JSR(ImmOrReg::Reg(reg(r))),
        RI::Ldr(d, s, o) => SimInstr::LDR(reg(d), reg(s), off::<6>(o)?),
        RI::Str(d, s, o) => SimInstr::STR(reg(d), reg(s), off::<6>(o)?),
        RI::Rti => SimInstr::RTI,
        RI::Not(d, s) => SimInstr::NOT(reg(d), reg(s)),
        RI::Ldi(d, o) => SimInstr::LDI(reg(d), off::<9>(o)?),
        RI::Sti(d, o) => SimInstr::STI(reg(d), off::<9>(o)?),
        RI::Jmp(r) => SimInstr::JMP(reg(r)),
        RI::Lea(d, o) => SimInstr::LEA(reg(d), off::<9>(o)?),
        RI::Trap(v) => SimInstr::TRAP(Offset::<u16, 8>::new(v as u16).ok()?),
    })
}

// ==========================================================================================
// Reference two-pass assembler and well-formedness classifier over generated statements
// ==========================================================================================
use crate::gen::{GStmt, PcOp, Src, K};
use std::collections::{BTreeMap, BTreeSet, HashMap};

/// Tags mirroring the crate's `AsmErrKind` (OffsetNewErr carries the field width).
#[derive(Clone, Copy, Debug, PartialEq, Eq, PartialOrd, Ord, Hash)]
pub enum Kind {
    UndetAddrLabel, UndetAddrStmt, UnclosedOrig, UnopenedOrig, OverlappingOrig, OverlappingLabels, WrappingBlock,
    BlockInIO, OverlappingBlocks, OffsetFit(u32), OffsetExternal, CouldNotFindLabel,
}

#[derive(Clone, Debug, Default)]
pub struct Analysis {
    /// the program violates at least one well-formedness condition
    pub reject: bool,
    /// kinds that name a violated condition (what the assembler may report)
    pub acceptable: BTreeSet<Kind>,
    /// human-readable list of violated conditions
    pub faults: Vec<String>,
    /// address -> Some(word) | None (.blkw)          (meaningful only when !reject)
    pub image: BTreeMap<u16, Option<u16>>,
    /// upper-cased label -> (address, external)
    pub labels: BTreeMap<String, (u16, bool)>,
    /// relocation entries: address of `.fill EXT` -> upper-cased label
    pub relocs: BTreeMap<u16, String>,
    /// non-empty blocks (start, words)
    pub blocks: Vec<(u16, Vec<Option<u16>>)>,
    /// statement index -> address of its first word (statements that occupy memory)
    pub stmt_addr: BTreeMap<usize, u16>,
    /// first defining statement index for every label (upper-cased) and which label slot
    pub label_def: BTreeMap<String, (usize, usize)>,
    /// label -> statement index of an `.external` that declares it
    pub external_decl: BTreeMap<String, usize>,
}

fn up(s: &str) -> String { s.to_uppercase() }

/// Encodes one instruction statement at `addr` given the label table. Errors are (kind, text).
fn encode_stmt(k: &K, addr: u32, labels: &HashMap<String, Vec<(u32, bool)>>) -> Result<RI, (Kind, String)> {
    let pc = |op: &PcOp, bits: u32| -> Result<i16, (Kind, String)> {
        match op {
            PcOp::Num(v) => Ok(*v as i16),
            PcOp::Label(l) => {
                let Some(b) = labels.get(&up(l)) else { return Err((Kind::CouldNotFindLabel, format!("label {l} is not defined"))) };
                let (target, ext) = b[0];
                if ext || b.iter().any(|x| x.1) { return Err((Kind::OffsetExternal, format!("external label {l} used as PC-relative operand"))); }
                let d = (target as i64 - (addr as i64 + 1)).rem_euclid(65536);
                let d = if d >= 32768 { d - 65536 } else { d };
                let lo = -(1i64 << (bits - 1)); let hi = (1i64 << (bits - 1)) - 1;
                if d < lo || d > hi { return Err((Kind::OffsetFit(bits), format!("offset {d} to {l} does not fit {bits} bits"))); }
                Ok(d as i16)
            }
        }
    };
    let ro = |s: &Src| match s { Src::Reg(r) => RO::Reg(*r), Src::Imm(v) => RO::Imm(*v as i16) };
    Ok(match k {
        K::Add(d, s, x) => RI::Add(*d, *s, ro(x)),
        K::And(d, s, x) => RI::And(*d, *s, ro(x)),
        K::Br(c, o) => RI::Br(*c, pc(o, 9)?),
        K::Jmp(r) => RI::Jmp(*r),
        K::Jsr(o) => RI::Jsr(pc(o, 11)?),
        K::Jsrr(r) => RI::Jsrr(*r),
        K::Ld(d, o) => RI::Ld(*d, pc(o, 9)?),
        K::Ldi(d, o) => RI::Ldi(*d, pc(o, 9)?),
        K::Ldr(d, b, o) => RI::Ldr(*d, *b, *o as i16),
        K::Lea(d, o) => RI::Lea(*d, pc(o, 9)?),
        K::Not(d, s) => RI::Not(*d, *s),
        K::Ret => RI::Jmp(7),
        K::Rti => RI::Rti,
        K::St(d, o) => RI::St(*d, pc(o, 9)?),
        K::Sti(d, o) => RI::Sti(*d, pc(o, 9)?),
        K::Str(d, b, o) => RI::Str(*d, *b, *o as i16),
        K::Trap(v) => RI::Trap(*v as u8),
        K::Nop(None) => RI::Br(0, 0),
        K::Nop(Some(o)) => RI::Br(0, pc(o, 9)?),
        K::Getc => RI::Trap(0x20), K::Out | K::Putc => RI::Trap(0x21), K::Puts => RI::Trap(0x22), K::In => RI::Trap(0x23),
        K::Putsp => RI::Trap(0x24), K::Halt => RI::Trap(0x25),
        _ => unreachable!("not an instruction"),
    })
}

/// Classifies a statement list and, when it is well-formed, computes image, labels and relocations.
pub fn analyze(stmts: &[GStmt]) -> Analysis {
    let mut a = Analysis::default();
    let mut fault = |a: &mut Analysis, kinds: &[Kind], text: String| {
        a.reject = true;
        for k in kinds { a.acceptable.insert(*k); }
        a.faults.push(text);
    };
    // ---- pass 1: location counter, labels, structure ----
    struct Blk { start: u32, lc: u32, first_stmt: usize, overflow: bool }
    let mut cur: Option<Blk> = None;
    let mut ambiguous = false; // addresses after this point are not uniquely defined (nested .orig / overflow)
    let mut binds: HashMap<String, Vec<(u32, bool)>> = HashMap::new(); // upper -> [(addr, external)]
    let mut stmt_addr: BTreeMap<usize, u32> = BTreeMap::new();
    let mut ranges: Vec<(u32, u32, usize)> = vec![]; // (start, len, first stmt)
    for (i, st) in stmts.iter().enumerate() {
        let in_block = cur.is_some();
        if !st.labels.is_empty() {
            match &cur {
                None => {
                    let mut kinds = vec![Kind::UndetAddrLabel];
                    if !matches!(st.k, K::Orig(_) | K::External(_)) { kinds.push(Kind::UndetAddrStmt); }
                    if matches!(st.k, K::End) { kinds.push(Kind::UnopenedOrig); }
                    fault(&mut a, &kinds, format!("label(s) {:?} outside of a block (statement {i})", st.labels));
                }
                Some(b) => for (li, l) in st.labels.iter().enumerate() {
                    binds.entry(up(l)).or_default().push((b.lc, false));
                    a.label_def.entry(up(l)).or_insert((i, li));
                }
            }
        }
        match &st.k {
            K::Orig(addr) => {
                if in_block {
                    fault(&mut a, &[Kind::OverlappingOrig], format!(".orig inside a block (statement {i})"));
                    ambiguous = true;
                } else {
                    cur = Some(Blk { start: *addr as u32, lc: *addr as u32, first_stmt: i, overflow: false });
                }
            }
            K::End => {
                match cur.take() {
                    None => fault(&mut a, &[Kind::UnopenedOrig], format!(".end without .orig (statement {i})")),
                    Some(b) => { if b.lc > b.start { ranges.push((b.start, b.lc - b.start, b.first_stmt)); } }
                }
            }
            K::External(l) => {
                binds.entry(up(l)).or_default().push((0, true));
                a.external_decl.entry(up(l)).or_insert(i);
            }
            k => {
                match &mut cur {
                    None => fault(&mut a, &[Kind::UndetAddrStmt], format!("statement {i} ({}) outside of a block", k.name())),
                    Some(b) => {
                        let n = k.size();
                        if n > 0 { stmt_addr.insert(i, b.lc); }
                        b.lc += n;
                        if n > 0 && b.lc > 0xFE00 && !b.overflow {
                            b.overflow = true;
                            ambiguous = true;
                            let start = b.start;
                            if b.lc <= 0x10000 { fault(&mut a, &[Kind::BlockInIO], format!("block at x{start:04X} reaches x{:05X} (> xFE00) at statement {i}", b.lc)); }
                            else { fault(&mut a, &[Kind::WrappingBlock, Kind::BlockInIO], format!("block at x{start:04X} wraps past xFFFF at statement {i}")); }
                        }
                    }
                }
            }
        }
    }
    if let Some(b) = &cur {
        fault(&mut a, &[Kind::UnclosedOrig], format!(".orig at statement {} is never closed", b.first_stmt));
        if b.lc > b.start { ranges.push((b.start, b.lc - b.start, b.first_stmt)); }
    }
    // duplicate labels: same name bound to two different addresses (external counts as address 0)
    for (name, b) in &binds {
        if b.iter().any(|x| x.0 != b[0].0) {
            fault(&mut a, &[Kind::OverlappingLabels], format!("label {name} bound to several addresses {:X?}", b.iter().map(|x| x.0).collect::<Vec<_>>()));
        }
    }
    // overlapping non-empty blocks
    for i in 0..ranges.len() { for j in i + 1..ranges.len() {
        let (s1, l1, _) = ranges[i]; let (s2, l2, _) = ranges[j];
        if s1 < s2 + l2 && s2 < s1 + l1 { fault(&mut a, &[Kind::OverlappingBlocks], format!("blocks x{s1:04X}+{l1} and x{s2:04X}+{l2} overlap")); }
    } }
    // ---- pass 2: operands ----
    let mut words: BTreeMap<usize, Vec<Option<u16>>> = BTreeMap::new();
    for (i, st) in stmts.iter().enumerate() {
        let Some(&addr) = stmt_addr.get(&i) else {
            // statements outside blocks still have operands whose labels may be undefined; the statement fault is already recorded
            continue;
        };
        match &st.k {
            K::Fill(PcOp::Num(v)) => { words.insert(i, vec![Some(*v as u16)]); }
            K::Fill(PcOp::Label(l)) => {
                match binds.get(&up(l)) {
                    None => fault(&mut a, &[Kind::CouldNotFindLabel], format!(".fill label {l} is not defined (statement {i})")),
                    Some(b) => {
                        if b.iter().any(|x| x.1) { a.relocs.insert(addr as u16, up(l)); }
                        words.insert(i, vec![Some(b[0].0 as u16)]);
                    }
                }
            }
            K::Blkw(n) => { words.insert(i, vec![None; (*n).max(0) as usize]); }
            K::Stringz(s) => { let mut w: Vec<Option<u16>> = s.bytes().map(|b| Some(b as u16)).collect(); w.push(Some(0)); words.insert(i, w); }
            k if k.is_instr() => match encode_stmt(k, addr, &binds) {
                Ok(ri) => { words.insert(i, vec![Some(encode_ref(&ri))]); }
                Err((kind, text)) => fault(&mut a, &[kind], format!("{text} (statement {i})")),
            },
            _ => {}
        }
    }
    if ambiguous {
        // After a nested .orig or a location-counter overflow, later addresses depend on the recovery
        // an assembler chooses; any address-dependent kind is then acceptable (the verdict is 'reject' anyway).
        for k in [Kind::OverlappingLabels, Kind::OverlappingBlocks, Kind::BlockInIO, Kind::WrappingBlock, Kind::OffsetFit(9), Kind::OffsetFit(11),
                  Kind::UnclosedOrig, Kind::UnopenedOrig, Kind::OverlappingOrig, Kind::UndetAddrStmt, Kind::UndetAddrLabel] { a.acceptable.insert(k); }
    }
    if a.reject { return a; }
    // ---- well-formed: build image ----
    for (i, w) in &words {
        let base = stmt_addr[i];
        for (k, v) in w.iter().enumerate() { a.image.insert((base + k as u32) as u16, *v); }
    }
    for (name, b) in &binds { a.labels.insert(name.clone(), (b[0].0 as u16, b.iter().any(|x| x.1))); }
    for (i, ad) in &stmt_addr { a.stmt_addr.insert(*i, *ad as u16); }
    ranges.sort();
    for (s, l, _) in ranges {
        let mut v = vec![];
        for k in 0..l { v.push(a.image.get(&((s + k) as u16)).copied().flatten().map(Some).unwrap_or(None)); }
        // distinguish "absent" from ".blkw": every address in a block is present in the image
        let v2: Vec<Option<u16>> = (0..l).map(|k| *a.image.get(&((s + k) as u16)).expect("block word present")).collect();
        let _ = v;
        a.blocks.push((s as u16, v2));
    }
    a
}

pub fn kind_of_crate(k: &lc3_ensemble::asm::AsmErrKind) -> Kind {
    use lc3_ensemble::asm::AsmErrKind as E;
    use lc3_ensemble::ast::OffsetNewErr as O;
    match k {
        E::UndetAddrLabel => Kind::UndetAddrLabel, E::UndetAddrStmt => Kind::UndetAddrStmt, E::UnclosedOrig => Kind::UnclosedOrig,
        E::UnopenedOrig => Kind::UnopenedOrig, E::OverlappingOrig => Kind::OverlappingOrig, E::OverlappingLabels => Kind::OverlappingLabels,
        E::WrappingBlock => Kind::WrappingBlock, E::BlockInIO => Kind::BlockInIO, E::OverlappingBlocks => Kind::OverlappingBlocks,
        E::OffsetNewErr(O::CannotFitSigned(n)) => Kind::OffsetFit(*n),
        E::OffsetNewErr(O::CannotFitUnsigned(n)) => Kind::OffsetFit(100 + *n),
        E::OffsetExternal => Kind::OffsetExternal, E::CouldNotFindLabel => Kind::CouldNotFindLabel,
    }
}

//! Helpers shared by the assembler-side monitors: run the real parser/assembler on rendered text
//! and compare the resulting object file with the reference analysis.
#![allow(dead_code)]
use crate::gen::{GStmt, Rendered, K};
use crate::json::Json;
use crate::refasm::Analysis;
use lc3_ensemble::asm::{assemble, assemble_debug, AsmErr, ObjectFile, SymbolTable};
use lc3_ensemble::ast::asm::Stmt;
use lc3_ensemble::parse::parse_ast;
use std::collections::BTreeMap;

pub fn parse(text: &str) -> Result<Vec<Stmt>, String> { parse_ast(text).map_err(|e| format!("{e:?}")) }

pub fn asm(text: &str, debug: bool) -> Result<Result<ObjectFile, AsmErr>, String> {
    let ast = parse(text)?;
    Ok(if debug { assemble_debug(ast, text) } else { assemble(ast) })
}

pub fn image_of(obj: &ObjectFile) -> BTreeMap<u16, Option<u16>> { obj.addr_iter().collect() }

/// Which statement (by index) covers `addr` according to the reference analysis.
pub fn stmt_covering(stmts: &[GStmt], a: &Analysis, addr: u16) -> Option<usize> {
    a.stmt_addr.iter().find(|(i, s)| { let n = stmts[**i].k.size(); (addr.wrapping_sub(**s) as u32) < n }).map(|(i, _)| *i)
}

/// Compares an object file's image with the reference; returns (signature, description) of the first difference.
pub fn diff_image(stmts: &[GStmt], a: &Analysis, got: &BTreeMap<u16, Option<u16>>) -> Option<(String, String)> {
    for (addr, exp) in &a.image {
        let name = stmt_covering(stmts, a, *addr).map(|i| stmts[i].k.name()).unwrap_or("?");
        match got.get(addr) {
            None => return Some((format!("image-missing-address:{name}"), format!("address x{addr:04X} ({name}) is not defined in the object file; expected {exp:X?}"))),
            Some(g) if g != exp => return Some((format!("image-word:{name}"), format!("word at x{addr:04X} ({name}) is {g:X?}, expected {exp:X?}"))),
            _ => {}
        }
    }
    for (addr, g) in got {
        if !a.image.contains_key(addr) { return Some(("image-extra-address".to_string(), format!("object file defines x{addr:04X} = {g:X?}, which no statement occupies"))); }
    }
    None
}

/// Compares a symbol table's labels with the reference (names upper-cased).
pub fn diff_labels(a: &Analysis, sym: &SymbolTable) -> Option<(String, String)> {
    let got: BTreeMap<String, (u16, bool)> = sym.label_iter().map(|(n, ad, e)| (n.to_uppercase(), (ad, e))).collect();
    for (n, (ad, ext)) in &a.labels {
        match got.get(n) {
            None => return Some(("label-missing".into(), format!("label {n} missing from label_iter"))),
            Some((g, ge)) => {
                if g != ad { return Some(("label-address".into(), format!("label {n} at x{g:04X}, expected x{ad:04X}"))); }
                if ge != ext { return Some(("label-external-flag".into(), format!("label {n} external={ge}, expected {ext}"))); }
            }
        }
        if sym.lookup_label(n) != Some(*ad) { return Some(("lookup_label".into(), format!("lookup_label({n}) = {:X?}, expected x{ad:04X}", sym.lookup_label(n)))); }
    }
    for n in got.keys() { if !a.labels.contains_key(n) { return Some(("label-extra".into(), format!("label_iter lists {n}, which the program does not define"))); } }
    None
}

pub fn case_json(r: &Rendered) -> Json { Json::obj().set("source", r.text.as_str()) }

pub fn origin_tags(stmts: &[GStmt]) -> Vec<String> {
    stmts.iter().filter_map(|s| match s.k { K::Orig(a) => Some(format!("origin.x{:04X}", a)), _ => None }).collect()
}

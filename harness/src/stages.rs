//! Supplementary sanitizer / interpreter stages (thorough tier): the same workloads re-run under
//! Miri, AddressSanitizer and ThreadSanitizer. A report is a violation of the property whose
//! workload produced it; a stage that cannot be built or times out is recorded as unavailable /
//! inconclusive for that stage only and does not change the exit code.
use crate::json::Json;
use crate::monitor::Violation;
use std::path::Path;
use std::process::{Command, Stdio};
use std::time::{Duration, Instant};

pub struct StageSpec { pub name: &'static str, pub phases: &'static str, pub case_cap: u64, pub shards: u64, pub timeout_s: u64 }

pub struct StageResult { pub name: String, pub status: String, pub reports: Vec<Violation>, pub evaluations: u64, pub wall_s: f64, pub detail: String }

fn run_with_timeout(mut cmd: Command, timeout: Duration) -> Option<(i32, String)> {
    let mut child = cmd.stdin(Stdio::null()).stdout(Stdio::piped()).stderr(Stdio::piped()).spawn().ok()?;
    let t0 = Instant::now();
    // read output on threads so that pipes never fill up
    let (mut so, mut se) = (child.stdout.take()?, child.stderr.take()?);
    let h1 = std::thread::spawn(move || { let mut s = String::new(); let _ = std::io::Read::read_to_string(&mut so, &mut s); s });
    let h2 = std::thread::spawn(move || { let mut s = String::new(); let _ = std::io::Read::read_to_string(&mut se, &mut s); s });
    loop {
        match child.try_wait() {
            Ok(Some(st)) => { let out = format!("{}{}", h1.join().unwrap_or_default(), h2.join().unwrap_or_default()); use std::os::unix::process::ExitStatusExt; return Some((st.code().unwrap_or(128 + st.signal().unwrap_or(0)), out)); }
            Ok(None) => { if t0.elapsed() > timeout { let _ = child.kill(); let _ = child.wait(); return Some((-999, "timeout".into())); } std::thread::sleep(Duration::from_millis(100)); }
            Err(_) => return None,
        }
    }
}

const CFG: &str = "--cfg endorpersand_lc3_ensemble_verif";

/// Builds (if needed) and returns the command prefix that runs `lc3mon` under the given stage.
fn prepare(stage: &str, root: &Path) -> Result<Vec<String>, String> {
    let harness = root.join("harness");
    let tdir = root.join(format!("target-{stage}"));
    let tgt = "x86_64-unknown-linux-gnu";
    match stage {
        "miri" => Ok(vec!["cargo".into(), "+nightly".into(), "miri".into(), "run".into(), "--offline".into(), "--manifest-path".into(), harness.join("Cargo.toml").display().to_string(), "--target-dir".into(), tdir.display().to_string(), "--".into()]),
        "asan" | "tsan" => {
            let mut c = Command::new("cargo");
            c.current_dir(&harness).env("CARGO_NET_OFFLINE", "true").args(["+nightly", "build", "--offline", "--release", "--target", tgt, "--target-dir"]).arg(&tdir);
            if stage == "asan" { c.env("RUSTFLAGS", format!("-Zsanitizer=address -Cforce-frame-pointers=yes {CFG}")); }
            else { c.env("RUSTFLAGS", format!("-Zsanitizer=thread {CFG}")).arg("-Zbuild-std"); }
            match run_with_timeout(c, Duration::from_secs(1200)) {
                Some((0, _)) => Ok(vec![tdir.join(tgt).join("release").join("lc3mon").display().to_string()]),
                Some((code, out)) => Err(format!("build failed ({code}): {}", out.lines().rev().take(6).collect::<Vec<_>>().join(" | "))),
                None => Err("cannot run cargo".into()),
            }
        }
        _ => Err("unknown stage".into()),
    }
}

fn first_report_line(stage: &str, out: &str) -> Option<String> {
    for l in out.lines() {
        let t = l.trim();
        match stage {
            "miri" if t.starts_with("error:") && !t.contains("aborting due to") && !t.contains("could not compile") => return Some(t.to_string()),
            "asan" if t.contains("ERROR: AddressSanitizer") || t.contains("ERROR: LeakSanitizer") => return Some(t.to_string()),
            "tsan" if t.contains("WARNING: ThreadSanitizer") => return Some(t.to_string()),
            _ => {}
        }
    }
    None
}
/// first frame inside the crate under test or the harness, for de-duplication
fn first_repo_frame(out: &str) -> String {
    for l in out.lines() { if let Some(i) = l.find("/repo/src/") { return l[i..].split([':', ' ', ')']).next().unwrap_or("").to_string(); } }
    for l in out.lines() { if let Some(i) = l.find("harness/src/") { return l[i..].split([':', ' ', ')']).next().unwrap_or("").to_string(); } }
    "unknown-frame".into()
}

pub fn run_stage(spec: &StageSpec, prop_id: &str, seed: u64, root: &Path) -> StageResult {
    let t0 = Instant::now();
    let mut res = StageResult { name: spec.name.to_string(), status: "clean".into(), reports: vec![], evaluations: 0, wall_s: 0.0, detail: String::new() };
    let prefix = match prepare(spec.name, root) { Ok(p) => p, Err(e) => { res.status = "stage_unavailable".into(); res.detail = e; res.wall_s = t0.elapsed().as_secs_f64(); return res; } };
    let dir = root.join("target").join("shards").join(format!("{prop_id}-{}", spec.name));
    let _ = std::fs::remove_dir_all(&dir); let _ = std::fs::create_dir_all(&dir);
    // shards run as separate short processes in parallel
    let handles: Vec<_> = (0..spec.shards).map(|i| {
        let (prefix, dir, name, phases, cap, id, shards, timeout) = (prefix.clone(), dir.clone(), spec.name.to_string(), spec.phases.to_string(), spec.case_cap, prop_id.to_string(), spec.shards, spec.timeout_s);
        std::thread::spawn(move || {
            let out = dir.join(format!("{i}.json"));
            // sanitizers reserve terabytes of virtual address space for shadow memory: lift the soft cap set by ./check
            let mut c = Command::new("sh");
            c.arg("-c").arg("ulimit -S -v unlimited 2>/dev/null; exec \"$@\"").arg("sh").args(&prefix).args(["shard", &id, "quick", &seed.to_string(), &i.to_string(), &shards.to_string()]).arg(&out)
                .env("LC3MON_STAGE", &name).env("LC3MON_CASE_CAP", cap.to_string()).env("CARGO_NET_OFFLINE", "true");
            if !phases.is_empty() { c.env("LC3MON_PHASES", &phases); }
            match name.as_str() {
                "miri" => { c.env("MIRIFLAGS", "-Zmiri-disable-isolation").env("RUSTFLAGS", CFG); }
                "asan" => { c.env("ASAN_OPTIONS", "halt_on_error=1:abort_on_error=0:detect_leaks=1"); }
                _ => { c.env("TSAN_OPTIONS", "halt_on_error=1:exitcode=66"); }
            }
            let r = run_with_timeout(c, Duration::from_secs(timeout));
            (i, r, out)
        })
    }).collect();
    for h in handles {
        let Ok((i, r, out)) = h.join() else { continue };
        match r {
            None => { res.status = "stage_unavailable".into(); res.detail = "cannot spawn".into(); }
            Some((-999, _)) => { if res.status == "clean" { res.status = "timeout".into(); } res.detail = format!("shard {i} exceeded {} s", spec.timeout_s); }
            Some((_, text)) if text.contains("failed to allocate") || text.contains("ReserveShadowMemoryRange") || text.contains("cannot allocate memory") => {
                res.status = "stage_unavailable".into(); res.detail = format!("shard {i}: the sanitizer runtime could not reserve its shadow memory ({})", text.lines().find(|l| l.contains("allocate") || l.contains("Reserve")).unwrap_or("").trim());
            }
            Some((code, text)) => {
                if let Some(line) = first_report_line(spec.name, &text) {
                    let frame = first_repo_frame(&text);
                    let sig = format!("{}:{}:{}", spec.name, line.chars().take(60).collect::<String>(), frame);
                    let path = dir.join(format!("{i}.log")); let _ = std::fs::write(&path, &text);
                    res.status = "reports".into();
                    res.reports.push(Violation { sig, what: format!("{} report in shard {i} (log {}): {line}", spec.name, path.display()), phase: 0, index: 0, case: Json::obj().set("log", path.display().to_string()).set("stage", spec.name), count: 1, profile: spec.name.to_string() });
                } else if code != 0 {
                    if res.status == "clean" { res.status = "shard_failed".into(); }
                    res.detail = format!("shard {i} exit {code}: {}", text.lines().rev().take(4).collect::<Vec<_>>().join(" | "));
                }
                if let Some(j) = std::fs::read_to_string(&out).ok().and_then(|s| Json::parse(&s).ok()) {
                    res.evaluations += j.u64_of("evaluations");
                    // behavioural violations found while running under the sanitizer count too
                    if let Some(a) = j.get("violations").and_then(|a| a.as_arr()) { for v in a { res.reports.push(Violation { sig: v.str_of("sig"), what: format!("[under {}] {}", spec.name, v.str_of("what")), phase: v.u64_of("phase") as u32, index: v.u64_of("index"), case: v.get("case").cloned().unwrap_or(Json::Null), count: v.u64_of("count"), profile: spec.name.to_string() }); if res.status == "clean" { res.status = "reports".into(); } } }
                }
            }
        }
    }
    res.wall_s = t0.elapsed().as_secs_f64();
    res
}

//! Verdict plumbing: per-shard context, panic capture, shard result files, merging,
//! known-finding matching, evidence and replay files.
use crate::json::Json;
use crate::rng::{hash64, hash_bytes, Rng};
use std::cell::RefCell;
use std::collections::{BTreeMap, HashSet};
use std::panic::{catch_unwind, AssertUnwindSafe};
use std::path::{Path, PathBuf};

pub const QUICK_SCALE: u64 = 6;

#[derive(Clone, Copy, PartialEq, Eq, Debug)]
pub enum Tier { Quick, Thorough }
impl Tier {
    pub fn name(self) -> &'static str { match self { Tier::Quick => "quick", Tier::Thorough => "thorough" } }
    pub fn parse(s: &str) -> Option<Tier> { match s { "quick" => Some(Tier::Quick), "thorough" => Some(Tier::Thorough), _ => None } }
    /// pick a size by tier
    /// workload size by tier; the quick size is multiplied by QUICK_SCALE (the base numbers give a ~1 s smoke run)
    pub fn pick(self, q: u64, t: u64) -> u64 { match self { Tier::Quick => (q * QUICK_SCALE).min(t.max(q)), Tier::Thorough => t } }
    pub fn pick_exact(self, q: u64, t: u64) -> u64 { match self { Tier::Quick => q, Tier::Thorough => t } }
}

#[derive(Clone, Debug)]
pub struct Violation {
    pub sig: String,
    pub what: String,
    pub phase: u32,
    pub index: u64,
    pub case: Json,
    pub count: u64,
    pub profile: String,
}

#[derive(Clone, Debug)]
pub struct PanicInfo { pub file: String, pub line: u32, pub msg: String }
impl PanicInfo {
    /// signature without line numbers or concrete numbers
    pub fn sig(&self) -> String {
        let mut m = String::new();
        let mut in_digits = false;
        for c in self.msg.chars() {
            if c.is_ascii_digit() { if !in_digits { m.push('#'); in_digits = true; } }
            else { in_digits = false; m.push(if c.is_control() { ' ' } else { c }); }
            if m.len() >= 48 { break; }
        }
        let f = self.file.rsplit("/src/").next().unwrap_or(&self.file);
        format!("panic:{}:{}", f, m.trim())
    }
}

thread_local! { static LAST_PANIC: RefCell<Option<PanicInfo>> = const { RefCell::new(None) }; }

pub fn install_panic_hook() {
    std::panic::set_hook(Box::new(|info| {
        let (file, line) = info.location().map(|l| (l.file().to_string(), l.line())).unwrap_or_default();
        let msg = if let Some(s) = info.payload().downcast_ref::<&str>() { s.to_string() }
            else if let Some(s) = info.payload().downcast_ref::<String>() { s.clone() }
            else { "<non-string panic payload>".to_string() };
        LAST_PANIC.with(|p| *p.borrow_mut() = Some(PanicInfo { file, line, msg }));
    }));
}

/// Runs `f`, converting a panic into `Err(PanicInfo)`.
pub fn guard<T>(f: impl FnOnce() -> T) -> Result<T, PanicInfo> {
    LAST_PANIC.with(|p| *p.borrow_mut() = None);
    match catch_unwind(AssertUnwindSafe(f)) {
        Ok(v) => Ok(v),
        Err(_) => Err(LAST_PANIC.with(|p| p.borrow_mut().take())
            .unwrap_or(PanicInfo { file: "?".into(), line: 0, msg: "panic without hook info".into() })),
    }
}

pub struct Ctx {
    pub id: &'static str,
    pub tier: Tier,
    pub seed: u64,
    pub shard: u64,
    pub nshards: u64,
    pub profile: String,
    pub evaluations: u64,
    distinct: HashSet<u64>,
    /// cases that are distinct by construction (disjoint exhaustive enumeration)
    pub distinct_enum: u64,
    pub counts: BTreeMap<String, u64>,
    pub samples: Vec<Json>,
    pub violations: BTreeMap<String, Violation>,
    pub cur: (u32, u64),
    pub replay_only: Option<(u32, u64)>,
    journal: Option<std::fs::File>,
    pub notes: Vec<String>,
    /// sanitizer stage this shard runs under ("" = none, "miri", "asan", "tsan"); from LC3MON_STAGE
    pub stage: String,
    /// restrict to these phases (LC3MON_PHASES="3,4")
    pub only_phases: Option<Vec<u32>>,
    /// cap on the number of cases per phase (LC3MON_CASE_CAP)
    pub case_cap: Option<u64>,
}

pub const MAX_SAMPLES: usize = 4;

impl Ctx {
    pub fn new(id: &'static str, tier: Tier, seed: u64, shard: u64, nshards: u64) -> Ctx {
        Ctx {
            id, tier, seed, shard, nshards,
            profile: if cfg!(debug_assertions) { "verif".into() } else { "release".into() },
            evaluations: 0, distinct: HashSet::new(), distinct_enum: 0, counts: BTreeMap::new(), samples: vec![],
            violations: BTreeMap::new(), cur: (0, 0), replay_only: None, journal: None, notes: vec![],
            stage: std::env::var("LC3MON_STAGE").unwrap_or_default(),
            only_phases: std::env::var("LC3MON_PHASES").ok().map(|s| s.split(',').filter_map(|x| x.trim().parse().ok()).collect()),
            case_cap: std::env::var("LC3MON_CASE_CAP").ok().and_then(|s| s.parse().ok()),
        }
    }
    pub fn open_journal(&mut self, path: &Path) {
        self.journal = std::fs::OpenOptions::new().create(true).write(true).truncate(true).open(path).ok();
    }
    fn journal_write(&mut self) {
        use std::os::unix::fs::FileExt;
        if let Some(f) = &self.journal {
            let mut b = [0u8; 12];
            b[..4].copy_from_slice(&self.cur.0.to_le_bytes());
            b[4..].copy_from_slice(&self.cur.1.to_le_bytes());
            let _ = f.write_at(&b, 0);
        }
    }
    pub fn case_seed(&self, phase: u32, index: u64) -> u64 {
        hash64(&[self.seed, hash_bytes(self.id.as_bytes()), phase as u64, index])
    }
    /// Runs cases `0..n` of `phase` that belong to this shard (or only the replayed one).
    /// Each case gets its own deterministic RNG, so a replay file only needs (seed, phase, index).
    pub fn cases(&mut self, phase: u32, n: u64, mut f: impl FnMut(&mut Ctx, &mut Rng, u64)) {
        if let Some(ps) = &self.only_phases { if !ps.contains(&phase) && self.replay_only.is_none() { return; } }
        let n = match self.case_cap { Some(c) if self.replay_only.is_none() => n.min(c), _ => n };
        if let Some((p, i)) = self.replay_only {
            if p == phase && i < n {
                self.cur = (phase, i);
                let mut rng = Rng::new(self.case_seed(phase, i));
                self.run_case(&mut f, &mut rng, i);
            }
            return;
        }
        let mut i = self.shard;
        while i < n {
            self.cur = (phase, i);
            self.journal_write();
            let mut rng = Rng::new(self.case_seed(phase, i));
            self.run_case(&mut f, &mut rng, i);
            i += self.nshards;
        }
    }
    /// Runs one case. A panic that escapes the case (the check called the library outside `no_panic`) is attributed by the
    /// location the panic hook recorded: inside the library's sources it is a violation (the library panicked on an input of
    /// the property's domain instead of answering); anywhere else (harness code, unknown) the shard dies as before and the
    /// run is INCONCLUSIVE.
    fn run_case(&mut self, f: &mut impl FnMut(&mut Ctx, &mut Rng, u64), rng: &mut Rng, i: u64) {
        match guard(|| f(self, rng, i)) {
            Ok(()) => {}
            Err(p) => {
                let in_library = p.file.contains("repo/src/") && !p.file.contains("harness");
                if !in_library { eprintln!("panic outside the library at {}:{}: {}", p.file, p.line, p.msg); std::process::exit(101); }
                let sig = p.sig().replacen("panic:", "panic:escaped:", 1);
                let what = format!("the library panicked at {}:{} while the check was querying it: {}", p.file, p.line, p.msg);
                self.count("panic.escaped");
                self.violation(&sig, what, Json::obj().set("note", "replay with the recorded phase/index"));
            }
        }
    }
    /// Split an exhaustive index space `0..n` into contiguous slices for this shard.
    pub fn my_slice(&self, n: u64) -> std::ops::Range<u64> {
        if self.replay_only.is_some() { return 0..n; }
        let per = n.div_ceil(self.nshards);
        let lo = (per * self.shard).min(n);
        let hi = (lo + per).min(n);
        lo..hi
    }
    pub fn eval(&mut self) { self.evaluations += 1; }
    pub fn evals(&mut self, n: u64) { self.evaluations += n; }
    pub fn nontrivial(&mut self, h: u64) { self.distinct.insert(h); }
    /// count cases that are distinct by construction (exhaustive enumeration split disjointly over shards)
    pub fn nontrivial_enum(&mut self, n: u64) { self.distinct_enum += n; }
    pub fn nontrivial_str(&mut self, s: &str) { self.distinct.insert(hash_bytes(s.as_bytes())); }
    pub fn count(&mut self, key: &str) { *self.counts.entry(key.to_string()).or_insert(0) += 1; }
    pub fn count_n(&mut self, key: &str, n: u64) { *self.counts.entry(key.to_string()).or_insert(0) += n; }
    pub fn want_sample(&self) -> bool { self.samples.len() < MAX_SAMPLES }
    pub fn sample(&mut self, j: Json) { if self.samples.len() < MAX_SAMPLES { self.samples.push(j); } }
    pub fn violation(&mut self, sig: &str, what: impl Into<String>, case: Json) {
        let profile = self.profile.clone();
        let cur = self.cur;
        let e = self.violations.entry(sig.to_string()).or_insert_with(|| Violation {
            sig: sig.to_string(), what: what.into(), phase: cur.0, index: cur.1, case, count: 0, profile,
        });
        e.count += 1;
    }
    /// Run library code; a panic becomes a violation with signature `panic:<file>:<msg>`.
    pub fn no_panic<T>(&mut self, stage: &str, case: impl FnOnce() -> Json, f: impl FnOnce() -> T) -> Option<T> {
        match guard(f) {
            Ok(v) => Some(v),
            Err(p) => {
                let sig = p.sig().replacen("panic:", &format!("panic:{}:", stage.split('(').next().unwrap_or(stage)), 1);
                let what = format!("panic in {stage} at {}:{}: {}", p.file, p.line, p.msg);
                self.count(&format!("panic.{stage}"));
                self.violation(&sig, what, case());
                None
            }
        }
    }

    pub fn to_json(&self) -> Json {
        let mut viol = vec![];
        for v in self.violations.values() {
            viol.push(Json::obj().set("sig", &v.sig).set("what", &v.what).set("phase", v.phase)
                .set("index", v.index).set("case", v.case.clone()).set("count", v.count).set("profile", &v.profile));
        }
        let mut counts = Json::obj();
        for (k, v) in &self.counts { counts.put(k, *v); }
        Json::obj()
            .set("id", self.id).set("shard", self.shard).set("profile", &self.profile)
            .set("evaluations", self.evaluations)
            .set("distinct_enum", self.distinct_enum)
            .set("distinct", Json::Arr(self.distinct.iter().map(|h| Json::Int(*h as i64)).collect()))
            .set("counts", counts)
            .set("samples", Json::Arr(self.samples.clone()))
            .set("violations", Json::Arr(viol))
            .set("notes", Json::Arr(self.notes.iter().map(|s| Json::from(s.as_str())).collect()))
    }
}

#[derive(Default)]
pub struct Merged {
    pub evaluations: u64,
    pub distinct: HashSet<u64>,
    pub distinct_enum: u64,
    pub counts: BTreeMap<String, u64>,
    pub samples: Vec<Json>,
    pub violations: BTreeMap<String, Violation>,
    pub notes: Vec<String>,
    pub shards_ok: u64,
    pub inconclusive: Vec<String>,
}
impl Merged {
    pub fn distinct_total(&self) -> u64 { self.distinct.len() as u64 + self.distinct_enum }
    pub fn c(&self, k: &str) -> u64 { self.counts.get(k).copied().unwrap_or(0) }
    /// sum of all counters with the given prefix
    pub fn cp(&self, prefix: &str) -> u64 { self.counts.iter().filter(|(k, _)| k.starts_with(prefix)).map(|(_, v)| *v).sum() }
    pub fn absorb(&mut self, j: &Json) {
        self.evaluations += j.u64_of("evaluations");
        self.distinct_enum += j.u64_of("distinct_enum");
        if let Some(a) = j.get("distinct").and_then(|a| a.as_arr()) { for h in a { if let Some(h) = h.as_u64() { self.distinct.insert(h); } } }
        if let Some(m) = j.get("counts").and_then(|m| m.as_obj()) { for (k, v) in m { *self.counts.entry(k.clone()).or_insert(0) += v.as_u64().unwrap_or(0); } }
        if let Some(a) = j.get("samples").and_then(|a| a.as_arr()) { for s in a { if self.samples.len() < MAX_SAMPLES { self.samples.push(s.clone()); } } }
        if let Some(a) = j.get("notes").and_then(|a| a.as_arr()) { for s in a { if let Some(s) = s.as_str() { if !self.notes.iter().any(|n| n == s) { self.notes.push(s.to_string()); } } } }
        if let Some(a) = j.get("violations").and_then(|a| a.as_arr()) {
            for v in a {
                let sig = v.str_of("sig");
                let e = self.violations.entry(sig.clone()).or_insert_with(|| Violation {
                    sig, what: v.str_of("what"), phase: v.u64_of("phase") as u32, index: v.u64_of("index"),
                    case: v.get("case").cloned().unwrap_or(Json::Null), count: 0, profile: v.str_of("profile"),
                });
                e.count += v.u64_of("count");
            }
        }
        self.shards_ok += 1;
    }
}

pub struct KnownFinding { pub property: String, pub signature: String, pub status: String, pub what: String }

pub fn load_known_findings(verif_root: &Path) -> Vec<KnownFinding> {
    let p = verif_root.join("known_findings.json");
    let Ok(s) = std::fs::read_to_string(&p) else { return vec![] };
    let Ok(j) = Json::parse(&s) else { eprintln!("warning: cannot parse {}", p.display()); return vec![] };
    let arr = j.get("findings").and_then(|a| a.as_arr()).map(|a| a.to_vec()).unwrap_or_default();
    arr.iter().map(|f| KnownFinding {
        property: f.str_of("property"), signature: f.str_of("signature"), status: f.str_of("status"), what: f.str_of("what"),
    }).collect()
}

pub fn verif_root() -> PathBuf {
    if let Ok(p) = std::env::var("VERIF_ROOT") { return PathBuf::from(p); }
    // the binary lives in <root>/target/<profile>/lc3mon
    let exe = std::env::current_exe().unwrap_or_default();
    exe.ancestors().nth(3).map(|p| p.to_path_buf()).unwrap_or_else(|| PathBuf::from("/verif"))
}

//! lc3mon: runtime monitors for lc3-ensemble (see /verif/DESIGN.md).
mod json;
mod rng;
mod monitor;
mod gen;
mod refasm;
mod refsim;
mod simutil;
mod asmutil;
mod objutil;
mod progs;
mod props;
mod stages;

use json::Json;
use monitor::*;
use std::path::PathBuf;
use std::process::{Command, Stdio};
use std::time::{Duration, Instant};

fn usage() -> ! {
    eprintln!("usage: lc3mon check <ID> <quick|thorough> | check <ID> --replay <file> | shard ... | list");
    std::process::exit(2)
}

fn main() {
    let args: Vec<String> = std::env::args().collect();
    if args.len() < 2 { usage(); }
    match args[1].as_str() {
        "list" => { for p in props::all() { println!("{} {} {}", p.id, p.level, p.title); } }
        "check" => std::process::exit(check(&args[2..])),
        "shard" => std::process::exit(shard(&args[2..])),
        "manifest" => manifest(),
        _ => usage(),
    }
}

fn env_seed() -> u64 {
    std::env::var("VERIF_SEED").ok().and_then(|s| s.trim().parse::<u64>().ok()).unwrap_or(20260921)
}

/// shard <id> <tier> <seed> <i> <n> <outfile> [replay_phase replay_index]
fn shard(a: &[String]) -> i32 {
    if a.len() < 6 { usage(); }
    let Some(prop) = props::find(&a[0]) else { eprintln!("unknown property {}", a[0]); return 2 };
    let tier = Tier::parse(&a[1]).unwrap_or(Tier::Quick);
    let seed: u64 = a[2].parse().unwrap_or(1);
    let i: u64 = a[3].parse().unwrap_or(0);
    let n: u64 = a[4].parse().unwrap_or(1);
    let out = PathBuf::from(&a[5]);
    install_panic_hook();
    let mut ctx = Ctx::new(prop.id, tier, seed, i, n);
    if a.len() >= 8 {
        ctx.replay_only = Some((a[6].parse().unwrap_or(0), a[7].parse().unwrap_or(0)));
    } else {
        if ctx.stage != "miri" { ctx.open_journal(&out.with_extension("journal")); }
    }
    (prop.run)(&mut ctx);
    let tmp = out.with_extension("tmp");
    if std::fs::write(&tmp, ctx.to_json().to_string()).is_err() { return 3; }
    if std::fs::rename(&tmp, &out).is_err() { return 3; }
    0
}

fn check(a: &[String]) -> i32 {
    if a.len() < 2 { usage(); }
    let Some(prop) = props::find(&a[0]) else { eprintln!("unknown property {}", a[0]); return 2 };
    let root = verif_root();
    if a[1] == "--replay" {
        if a.len() < 3 { usage(); }
        return replay(&prop, &a[2]);
    }
    let tier = Tier::parse(&a[1])
        .or_else(|| std::env::var("VERIF_TIER").ok().and_then(|t| Tier::parse(&t)))
        .unwrap_or(Tier::Quick);
    let seed = env_seed();
    let t0 = Instant::now();
    let nshards = (prop.shards)(tier).max(1);
    let exe = std::env::current_exe().expect("current_exe");
    let mut bins = vec![(exe.clone(), "verif")];
    if prop.also_release {
        let rel = exe.parent().and_then(|p| p.parent()).map(|p| p.join("release").join("lc3mon"));
        match rel { Some(r) if r.exists() => bins.push((r, "release")), _ => {} }
    }
    let dir = root.join("target").join("shards").join(prop.id);
    let _ = std::fs::remove_dir_all(&dir);
    let _ = std::fs::create_dir_all(&dir);

    struct Job { child: std::process::Child, out: PathBuf, label: String, done: bool }
    let mut jobs: Vec<Job> = vec![];
    for (bin, label) in &bins {
        for i in 0..nshards {
            let out = dir.join(format!("{label}-{i}.json"));
            let child = Command::new(bin)
                .args(["shard", prop.id, tier.name(), &seed.to_string(), &i.to_string(), &nshards.to_string()])
                .arg(&out)
                .stdin(Stdio::null())
                .spawn();
            match child {
                Ok(child) => jobs.push(Job { child, out, label: format!("{label}-{i}"), done: false }),
                Err(e) => { println!("INCONCLUSIVE property={} reason=cannot-spawn-shard:{e}", prop.id); return 2; }
            }
        }
    }
    let deadline = Duration::from_secs(match tier { Tier::Quick => 900, Tier::Thorough => 6 * 3600 });
    let mut merged = Merged::default();
    let mut crashed: Vec<(String, String, PathBuf)> = vec![];
    loop {
        let mut pending = 0;
        for j in jobs.iter_mut().filter(|j| !j.done) {
            match j.child.try_wait() {
                Ok(Some(st)) => {
                    j.done = true;
                    if st.success() {
                        match std::fs::read_to_string(&j.out).ok().and_then(|s| Json::parse(&s).ok()) {
                            Some(js) => merged.absorb(&js),
                            None => merged.inconclusive.push(format!("shard {} wrote no result", j.label)),
                        }
                    } else {
                        use std::os::unix::process::ExitStatusExt;
                        let why = match st.signal() { Some(s) => format!("signal-{s}"), None => format!("exit-{}", st.code().unwrap_or(-1)) };
                        crashed.push((j.label.clone(), why, j.out.with_extension("journal")));
                    }
                }
                Ok(None) => pending += 1,
                Err(e) => { j.done = true; merged.inconclusive.push(format!("wait failed: {e}")); }
            }
        }
        if pending == 0 { break; }
        if t0.elapsed() > deadline {
            for j in jobs.iter_mut().filter(|j| !j.done) { let _ = j.child.kill(); let _ = j.child.wait(); }
            merged.inconclusive.push(format!("watchdog fired after {}s", deadline.as_secs()));
            break;
        }
        std::thread::sleep(Duration::from_millis(20));
    }
    for (label, why, journal) in crashed {
        // A shard killed while inside a library call: violation for the panic-freedom properties,
        // inconclusive for the others.
        let (phase, index) = std::fs::read(&journal).ok().filter(|b| b.len() >= 12).map(|b| {
            (u32::from_le_bytes(b[..4].try_into().unwrap()), u64::from_le_bytes(b[4..12].try_into().unwrap()))
        }).unwrap_or((0, 0));
        if prop.abort_is_violation && why.starts_with("signal") {
            let sig = format!("abort:{why}");
            merged.violations.entry(sig.clone()).or_insert(Violation {
                sig, what: format!("shard {label} died with {why} while running case phase={phase} index={index}"),
                phase, index, case: Json::Null, count: 1, profile: label.split('-').next().unwrap_or("").to_string(),
            });
        } else {
            merged.inconclusive.push(format!("shard {label} died ({why}) at phase={phase} index={index}"));
        }
    }

    // supplementary sanitizer stages (thorough tier, or VERIF_STAGES=1)
    let mut stage_json = vec![];
    let stages_env = std::env::var("VERIF_STAGES").unwrap_or_default();
    if (tier == Tier::Thorough && stages_env != "0") || stages_env == "1" {
        for spec in (prop.stages)() {
            let r = stages::run_stage(&spec, prop.id, seed, &root);
            println!("stage {} ({}) for {}: {} ({} evaluations, {:.0}s) {}", r.name, spec.phases, prop.id, r.status, r.evaluations, r.wall_s, r.detail);
            stage_json.push(Json::obj().set("stage", r.name.as_str()).set("phases", spec.phases).set("status", r.status.as_str()).set("evaluations", r.evaluations).set("wall_s", r.wall_s).set("detail", r.detail.as_str()).set("reports", r.reports.len()));
            for v in r.reports { let e = merged.violations.entry(v.sig.clone()).or_insert(Violation { count: 0, ..v.clone() }); e.count += v.count.max(1); }
        }
    }

    // known findings
    let known = load_known_findings(&root);
    let mut known_lines = vec![];
    let mut new_viol = vec![];
    for v in merged.violations.values() {
        match known.iter().find(|k| k.property == prop.id && k.status == "open" && k.signature == v.sig) {
            Some(k) => known_lines.push(format!("KNOWN-FINDING: property={} {} [{}] (seen {}x this run)", prop.id, k.what, k.signature, v.count)),
            None => new_viol.push(v.clone()),
        }
    }

    // vacuity guard (not evaluated when a case was cut short by a new violation)
    if new_viol.is_empty() && merged.inconclusive.is_empty() {
        for u in (prop.guard)(&merged, tier) { merged.inconclusive.push(format!("vacuity guard not met: {u}")); }
    }

    // replay files
    let rdir = root.join("replays");
    let _ = std::fs::create_dir_all(&rdir);
    let mut viol_lines = vec![];
    for v in &new_viol {
        let path = rdir.join(format!("{}-{:016x}.json", prop.id, rng::hash_bytes(v.sig.as_bytes())));
        let j = Json::obj().set("property", prop.id).set("signature", &v.sig).set("what", &v.what)
            .set("seed", seed).set("tier", tier.name()).set("phase", v.phase).set("index", v.index)
            .set("profile", &v.profile).set("occurrences", v.count).set("case", v.case.clone());
        let _ = std::fs::write(&path, j.pretty());
        viol_lines.push(format!("VIOLATION property={} replay={} signature={:?} what={:?}", prop.id, path.display(), v.sig, v.what));
    }

    let verdict = if !new_viol.is_empty() { "violated" } else if !merged.inconclusive.is_empty() { "inconclusive" } else { "held" };
    let wall = t0.elapsed().as_secs_f64();
    write_evidence(&root, &prop, tier, seed, &merged, wall, verdict, &known_lines, new_viol.len(), bins.len(), stage_json);

    for l in &known_lines { println!("{l}"); }
    for l in &viol_lines { println!("{l}"); }
    for r in &merged.inconclusive { println!("INCONCLUSIVE property={} reason={}", prop.id, r); }
    println!("{} {} tier={} seed={} evaluations={} distinct_nontrivial={} shards={} wall={:.1}s",
        prop.id, verdict.to_uppercase(), tier.name(), seed, merged.evaluations, merged.distinct_total(), merged.shards_ok, wall);
    match verdict { "held" => 0, "violated" => 1, _ => 2 }
}

#[allow(clippy::too_many_arguments)]
fn write_evidence(root: &std::path::Path, prop: &props::Prop, tier: Tier, seed: u64, m: &Merged, wall: f64,
                  verdict: &str, known_lines: &[String], new_violations: usize, profiles: usize, stage_json: Vec<Json>) {
    let mut counts = Json::obj();
    for (k, v) in &m.counts { counts.put(k, *v); }
    let mut cov = Json::obj()
        .set("evaluations", m.evaluations)
        .set("distinct_nontrivial", m.distinct_total())
        .set("rule", prop.rule)
        .set("samples", Json::Arr(m.samples.clone()))
        .set("observed", counts)
        .set("profiles_run", profiles)
        .set("shards_merged", m.shards_ok);
    if (prop.exhaustive)(tier) { cov.put("exhaustive", true); }
    if !stage_json.is_empty() { cov.put("sanitizer_stages", Json::Arr(stage_json)); }
    if !m.notes.is_empty() { cov.put("notes", Json::Arr(m.notes.iter().map(|s| Json::from(s.as_str())).collect())); }
    let mut sigs = vec![];
    for v in m.violations.values() { sigs.push(Json::obj().set("signature", &v.sig).set("count", v.count).set("what", &v.what)); }
    let ev = Json::obj()
        .set("property_id", prop.id).set("tier", tier.name()).set("seed", seed).set("level", prop.level)
        .set("coverage", cov)
        .set("assumptions", Json::Arr(prop.assumptions.iter().map(|s| Json::from(*s)).collect()))
        .set("wall_s", wall)
        .set("violations", new_violations)
        .set("verdict", verdict)
        .set("violation_signatures", Json::Arr(sigs))
        .set("known_findings_matched", Json::Arr(known_lines.iter().map(|s| Json::from(s.as_str())).collect()))
        .set("inconclusive_reasons", Json::Arr(m.inconclusive.iter().map(|s| Json::from(s.as_str())).collect()));
    let dir = root.join("evidence");
    let _ = std::fs::create_dir_all(&dir);
    let _ = std::fs::write(dir.join(format!("{}.json", prop.id)), ev.pretty());
}

fn replay(prop: &props::Prop, path: &str) -> i32 {
    let Ok(s) = std::fs::read_to_string(path) else { eprintln!("cannot read {path}"); return 2 };
    let Ok(j) = Json::parse(&s) else { eprintln!("cannot parse {path}"); return 2 };
    let tier = Tier::parse(&j.str_of("tier")).unwrap_or(Tier::Quick);
    install_panic_hook();
    let mut ctx = Ctx::new(prop.id, tier, j.u64_of("seed"), 0, 1);
    ctx.replay_only = Some((j.u64_of("phase") as u32, j.u64_of("index")));
    (prop.run)(&mut ctx);
    if ctx.violations.is_empty() {
        println!("{} replay did not reproduce a violation (profile {})", prop.id, ctx.profile);
        return 0;
    }
    for v in ctx.violations.values() {
        println!("VIOLATION property={} replay={} signature={:?} what={:?}", prop.id, path, v.sig, v.what);
        println!("{}", v.case.pretty());
    }
    1
}

/// Emits MANIFEST.json from the registry (properties without a registered check are listed
/// under not_applicable with the reason given in `props::not_claimed`).
fn manifest() {
    let root = verif_root();
    let mut checks = vec![];
    let mut claimed = vec![];
    for p in props::all() {
        claimed.push(p.id.to_string());
        checks.push(Json::obj()
            .set("property_id", p.id)
            .set("quick_cmd", format!("./check {} quick", p.id))
            .set("thorough_cmd", format!("./check {} thorough", p.id))
            .set("evidence_file", format!("/verif/evidence/{}.json", p.id))
            .set("replay_cmd_template", format!("./check {} --replay {{path}}", p.id))
            .set("engine", "lc3mon")
            .set("level_claimed", Json::obj().set("category", p.level).set("text", p.level_text).set("design_ref", p.design_ref))
            .set("level_note", p.level_note)
            .set("technique", p.technique));
    }
    let mut na = vec![];
    if let Ok(s) = std::fs::read_to_string(root.join("properties.jsonl")) {
        for line in s.lines().filter(|l| !l.trim().is_empty()) {
            if let Ok(j) = Json::parse(line) {
                let id = j.str_of("id");
                if !claimed.contains(&id) {
                    na.push(Json::obj().set("property_id", id.as_str()).set("reason", props::not_claimed(&id)));
                }
            }
        }
    }
    let m = Json::obj()
        .set("version", 1)
        .set("setup_cmd", "cd /verif/harness && CARGO_NET_OFFLINE=true cargo build --offline --profile verif && CARGO_NET_OFFLINE=true cargo build --offline --release")
        .set("hooks", Json::obj()
            .set("guard", "endorpersand_lc3_ensemble_verif")
            .set("enable", "RUSTFLAGS --cfg endorpersand_lc3_ensemble_verif, set for every harness build by /verif/harness/.cargo/config.toml (the harness path-depends on /repo, so each check rebuilds /repo's working tree with the cfg on)")
            .set("baseline_off_cmd", "cd /repo && (cargo nextest run --workspace --no-fail-fast --test-threads 8 --offline || cargo test --workspace --no-fail-fast --offline)")
            .set("source_commits", Json::Arr(props::hook_commits().into_iter().map(Json::from).collect()))
            .set("add_only", true))
        .set("engines", Json::Arr(vec![Json::obj()
            .set("name", "lc3mon").set("path", "/verif/harness")
            .set("serves_properties", Json::Arr(claimed.iter().map(|s| Json::from(s.as_str())).collect()))
            .set("kind_free_text", "Rust harness that drives the real lc3-ensemble code with generated/hostile/exhaustive workloads in sharded processes and watches it with monitors: reference assembler and reference LC-3 machine in lock-step, contract checkers over recorded I/O histories, round-trip and metamorphic oracles, panic/abort monitors; Miri/ASan/TSan stages re-run the same workloads as supplementary oracles")]))
        .set("checks", Json::Arr(checks))
        .set("not_applicable", Json::Arr(na))
        .set("notes", "exit codes: 0 held, 1 VIOLATION (with replay file), 2 INCONCLUSIVE (never folded into held/violated). Known findings: /verif/known_findings.json. VERIF_SEED seeds every random choice; exhaustive parts ignore it.");
    let path = root.join("MANIFEST.json");
    std::fs::write(&path, m.pretty()).expect("write manifest");
    println!("wrote {}", path.display());
}

//! Seed-stable PRNG (splitmix64 seeding, xoshiro256**). Independent of the `rand` crate
//! so that replays do not depend on crate versions.
#[derive(Clone, Debug)]
pub struct Rng { s: [u64; 4] }

pub fn splitmix(x: &mut u64) -> u64 {
    *x = x.wrapping_add(0x9E3779B97F4A7C15);
    let mut z = *x;
    z = (z ^ (z >> 30)).wrapping_mul(0xBF58476D1CE4E5B9);
    z = (z ^ (z >> 27)).wrapping_mul(0x94D049BB133111EB);
    z ^ (z >> 31)
}

pub fn hash64(parts: &[u64]) -> u64 {
    let mut h = 0xcbf29ce484222325u64;
    for &p in parts {
        let mut x = p ^ h;
        h = splitmix(&mut x) ^ h.rotate_left(17);
    }
    h
}
pub fn hash_bytes(b: &[u8]) -> u64 {
    let mut h = 0xcbf29ce484222325u64;
    for &c in b { h ^= c as u64; h = h.wrapping_mul(0x100000001b3); }
    let mut x = h; splitmix(&mut x)
}

impl Rng {
    pub fn new(seed: u64) -> Rng {
        let mut x = seed;
        Rng { s: [splitmix(&mut x), splitmix(&mut x), splitmix(&mut x), splitmix(&mut x)] }
    }
    pub fn next(&mut self) -> u64 {
        let r = self.s[1].wrapping_mul(5).rotate_left(7).wrapping_mul(9);
        let t = self.s[1] << 17;
        self.s[2] ^= self.s[0]; self.s[3] ^= self.s[1]; self.s[1] ^= self.s[2]; self.s[0] ^= self.s[3];
        self.s[2] ^= t; self.s[3] = self.s[3].rotate_left(45);
        r
    }
    /// uniform in 0..n (n > 0)
    pub fn below(&mut self, n: u64) -> u64 { if n == 0 { 0 } else { self.next() % n } }
    pub fn usize(&mut self, n: usize) -> usize { self.below(n as u64) as usize }
    /// inclusive range
    pub fn range(&mut self, lo: i64, hi: i64) -> i64 { lo + self.below((hi - lo + 1) as u64) as i64 }
    pub fn u16(&mut self) -> u16 { self.next() as u16 }
    pub fn bool(&mut self) -> bool { self.next() & 1 == 1 }
    /// true with probability num/den
    pub fn chance(&mut self, num: u64, den: u64) -> bool { self.below(den) < num }
    pub fn pick<'a, T>(&mut self, xs: &'a [T]) -> &'a T { &xs[self.usize(xs.len())] }
    pub fn shuffle<T>(&mut self, xs: &mut [T]) {
        for i in (1..xs.len()).rev() { let j = self.usize(i + 1); xs.swap(i, j); }
    }
}

//! Generators: statement model, program generator, surface renderer.
#![allow(dead_code)]
pub mod faults;

use crate::rng::Rng;
use std::ops::Range;

#[derive(Clone, Debug, PartialEq, Eq, Hash)]
pub enum PcOp { Num(i32), Label(String) }
#[derive(Clone, Debug, PartialEq, Eq, Hash)]
pub enum Src { Reg(u8), Imm(i32) }

/// Statement kinds as *written* (values may be out of range in fault cases).
#[derive(Clone, Debug, PartialEq, Eq, Hash)]
pub enum K {
    Add(u8, u8, Src), And(u8, u8, Src), Br(u8, PcOp), Jmp(u8), Jsr(PcOp), Jsrr(u8), Ld(u8, PcOp), Ldi(u8, PcOp),
    Ldr(u8, u8, i32), Lea(u8, PcOp), Not(u8, u8), Ret, Rti, St(u8, PcOp), Sti(u8, PcOp), Str(u8, u8, i32), Trap(i32),
    Nop(Option<PcOp>), Getc, Out, Putc, Puts, In, Putsp, Halt,
    Orig(i32), Fill(PcOp), Blkw(i32), Stringz(String), End, External(String),
}

#[derive(Clone, Debug, PartialEq, Eq, Hash)]
pub struct GStmt { pub labels: Vec<String>, pub k: K }

impl K {
    /// number of words the statement occupies
    pub fn size(&self) -> u32 {
        match self {
            K::Orig(_) | K::End | K::External(_) => 0,
            K::Blkw(n) => (*n).max(0) as u32,
            K::Stringz(s) => s.len() as u32 + 1,
            _ => 1,
        }
    }
    pub fn is_instr(&self) -> bool { !matches!(self, K::Orig(_) | K::Fill(_) | K::Blkw(_) | K::Stringz(_) | K::End | K::External(_)) }
    pub fn name(&self) -> &'static str {
        match self {
            K::Add(_, _, Src::Reg(_)) => "ADDr", K::Add(..) => "ADDi", K::And(_, _, Src::Reg(_)) => "ANDr", K::And(..) => "ANDi",
            K::Br(..) => "BR", K::Jmp(_) => "JMP", K::Jsr(_) => "JSR", K::Jsrr(_) => "JSRR", K::Ld(..) => "LD", K::Ldi(..) => "LDI",
            K::Ldr(..) => "LDR", K::Lea(..) => "LEA", K::Not(..) => "NOT", K::Ret => "RET", K::Rti => "RTI", K::St(..) => "ST",
            K::Sti(..) => "STI", K::Str(..) => "STR", K::Trap(_) => "TRAP", K::Nop(_) => "NOP", K::Getc => "GETC", K::Out => "OUT",
            K::Putc => "PUTC", K::Puts => "PUTS", K::In => "IN", K::Putsp => "PUTSP", K::Halt => "HALT", K::Orig(_) => ".orig",
            K::Fill(_) => ".fill", K::Blkw(_) => ".blkw", K::Stringz(_) => ".stringz", K::End => ".end", K::External(_) => ".external",
        }
    }
    /// the PC-relative operand, if any, with its field width
    pub fn pc_operand(&self) -> Option<(&PcOp, u32)> {
        match self {
            K::Br(_, o) | K::Ld(_, o) | K::Ldi(_, o) | K::Lea(_, o) | K::St(_, o) | K::Sti(_, o) => Some((o, 9)),
            K::Nop(Some(o)) => Some((o, 9)),
            K::Jsr(o) => Some((o, 11)),
            _ => None,
        }
    }
    pub fn pc_operand_mut(&mut self) -> Option<(&mut PcOp, u32)> {
        match self {
            K::Br(_, o) | K::Ld(_, o) | K::Ldi(_, o) | K::Lea(_, o) | K::St(_, o) | K::Sti(_, o) => Some((o, 9)),
            K::Nop(Some(o)) => Some((o, 9)),
            K::Jsr(o) => Some((o, 11)),
            _ => None,
        }
    }
}

pub const KEYWORDS: [&str; 32] = ["ADD", "AND", "NOT", "BR", "BRP", "BRZ", "BRZP", "BRN", "BRNP", "BRNZ", "BRNZP", "JMP", "JSR", "JSRR",
    "LD", "LDI", "LDR", "LEA", "ST", "STI", "STR", "TRAP", "NOP", "RET", "RTI", "GETC", "OUT", "PUTC", "PUTS", "IN", "PUTSP", "HALT"];

/// Is `s` lexed as a label (and not as a keyword, register or hex literal)?
pub fn is_label_name(s: &str) -> bool {
    let b = s.as_bytes();
    if b.is_empty() || !(b[0].is_ascii_alphabetic() || b[0] == b'_') { return false; }
    if !b.iter().all(|c| c.is_ascii_alphanumeric() || *c == b'_') { return false; }
    let up = s.to_ascii_uppercase();
    if KEYWORDS.contains(&up.as_str()) { return false; }
    if (b[0] == b'R' || b[0] == b'r') && b.len() > 1 && b[1..].iter().all(|c| c.is_ascii_digit()) { return false; }
    if (b[0] == b'X' || b[0] == b'x') && b.len() > 1 && b[1].is_ascii_hexdigit() { return false; }
    true
}

/// Appends a multi-byte suffix to every label of the program (definitions, declarations and operands alike): label names may
/// contain any Unicode word character after the first one.
pub fn widen_labels(stmts: &mut [GStmt], suffix: &str) {
    for st in stmts.iter_mut() {
        for l in st.labels.iter_mut() { l.push_str(suffix); }
        match &mut st.k { K::External(l) | K::Fill(PcOp::Label(l)) => l.push_str(suffix), k => if let Some((PcOp::Label(l), _)) = k.pc_operand_mut() { l.push_str(suffix); } }
    }
}

pub fn gen_label_name(rng: &mut Rng) -> String {
    const STEMS: [&str; 28] = ["loop", "Done", "DATA", "msg", "ptr", "Next", "skip", "SUB", "buf", "val", "Top", "end_", "_tmp", "k", "Brx",
        "halt_", "outer", "INNER", "ret_", "Zed", "w", "go", "Tbl", "y", "R2D2", "r0_save", "R7Backup", "R1x"];
    loop {
        let mut s = String::new();
        if rng.chance(3, 4) { s.push_str(STEMS[rng.usize(STEMS.len())]); } else {
            let n = 1 + rng.usize(6);
            for i in 0..n {
                let c = if i == 0 { *rng.pick(b"abcdefghijklmnopqrstuvwyzABCDEFGHIJKLMNOPQSTUVWYZ_") } else { *rng.pick(b"abcdefghijklmnopqrstuvwxyzABCDEFGHIJKLMNOPQRSTUVWXYZ0123456789_") };
                s.push(c as char);
            }
        }
        if rng.chance(2, 3) { s.push_str(&format!("{}", rng.below(1000))); }
        if rng.chance(1, 8) { s.push('_'); }
        if is_label_name(&s) { return s; }
    }
}

pub fn recase(rng: &mut Rng, s: &str) -> String {
    match rng.below(4) {
        0 => s.to_string(),
        1 => s.to_ascii_uppercase(),
        2 => s.to_ascii_lowercase(),
        _ => s.chars().map(|c| if rng.bool() { c.to_ascii_uppercase() } else { c.to_ascii_lowercase() }).collect(),
    }
}

// ------------------------------------------------------------------------------------------
// Program generation (well-formed by construction; the reference assembler re-derives that)
// ------------------------------------------------------------------------------------------

pub const ORIGINS: [u16; 14] = [0x0000, 0x0001, 0x01FF, 0x0200, 0x2FFF, 0x3000, 0x3001, 0x4000, 0x7FFF, 0x8000, 0xFD00, 0xFDF0, 0xFDFE, 0xFDFF];

#[derive(Clone, Debug)]
pub struct GenOpts {
    pub max_blocks: usize,
    pub max_stmts_per_block: usize,
    pub externals: bool,
    pub big_padding: bool,
    /// restrict .stringz content to printable ASCII, tab, LF, CR, NUL
    pub ascii_strings: bool,
}
impl Default for GenOpts {
    fn default() -> Self { GenOpts { max_blocks: 4, max_stmts_per_block: 14, externals: true, big_padding: true, ascii_strings: false } }
}

fn boundary_signed(rng: &mut Rng, bits: u32) -> i32 {
    let lo = -(1i32 << (bits - 1));
    let hi = (1i32 << (bits - 1)) - 1;
    match rng.below(10) {
        0 => lo, 1 => lo + 1, 2 => -1, 3 => 0, 4 => 1, 5 => hi - 1, 6 => hi,
        _ => rng.range(lo as i64, hi as i64) as i32,
    }
}

pub fn gen_string(rng: &mut Rng, ascii_only: bool) -> String {
    let n = match rng.below(8) { 0 => 0, 1 => 1, 2 => 2 + rng.usize(30), _ => rng.usize(9) };
    let mut s = String::new();
    for _ in 0..n {
        let c = match rng.below(if ascii_only { 8 } else { 10 }) {
            0 => '"', 1 => '\\', 2 => *rng.pick(&['\n', '\r', '\t', '\0']),
            3 => ';', 4 => ' ',
            5..=7 => (0x20 + rng.below(0x5f) as u8) as char,
            8 => *rng.pick(&['é', 'ß', 'λ', '中', '🦀', '\u{7f}', '\u{1}']),
            _ => *rng.pick(&['ü', 'Ж', '€']),
        };
        s.push(c);
        if c == '\\' && !ascii_only && rng.chance(1, 3) { s.push(*rng.pick(&['é', '中', '🦀', 'ß'])); }
    }
    s
}

/// Generates the body statements of one block (no .orig/.end), without labels or label operands.
fn gen_body(rng: &mut Rng, n: usize, opts: &GenOpts) -> Vec<GStmt> {
    let mut v = vec![];
    for _ in 0..n {
        let r = |rng: &mut Rng| rng.below(8) as u8;
        let k = match rng.below(40) {
            0 => K::Add(r(rng), r(rng), Src::Reg(r(rng))),
            1 | 2 => K::Add(r(rng), r(rng), Src::Imm(boundary_signed(rng, 5))),
            3 => K::And(r(rng), r(rng), Src::Reg(r(rng))),
            4 | 5 => K::And(r(rng), r(rng), Src::Imm(boundary_signed(rng, 5))),
            6 | 7 => K::Br(1 + rng.below(7) as u8, PcOp::Num(boundary_signed(rng, 9))),
            8 => K::Jmp(r(rng)),
            9 | 10 => K::Jsr(PcOp::Num(boundary_signed(rng, 11))),
            11 => K::Jsrr(r(rng)),
            12 | 13 => K::Ld(r(rng), PcOp::Num(boundary_signed(rng, 9))),
            14 => K::Ldi(r(rng), PcOp::Num(boundary_signed(rng, 9))),
            15 | 16 => K::Ldr(r(rng), r(rng), boundary_signed(rng, 6)),
            17 => K::Lea(r(rng), PcOp::Num(boundary_signed(rng, 9))),
            18 => K::Not(r(rng), r(rng)),
            19 => K::Ret,
            20 => K::Rti,
            21 => K::St(r(rng), PcOp::Num(boundary_signed(rng, 9))),
            22 => K::Sti(r(rng), PcOp::Num(boundary_signed(rng, 9))),
            23 | 24 => K::Str(r(rng), r(rng), boundary_signed(rng, 6)),
            25 => K::Trap(*rng.pick(&[0, 1, 0x20, 0x25, 0x7f, 0x80, 0xfe, 0xff])),
            26 => K::Trap(rng.below(256) as i32),
            27 => if rng.bool() { K::Nop(None) } else { K::Nop(Some(PcOp::Num(boundary_signed(rng, 9)))) },
            28 => K::Getc, 29 => K::Out, 30 => K::Putc, 31 => K::Puts, 32 => K::In, 33 => K::Putsp, 34 => K::Halt,
            35 | 36 => K::Fill(PcOp::Num(match rng.below(8) { 0 => 0, 1 => 65535, 2 => -32768, 3 => -1, 4 => 32767, 5 => 32768, _ => rng.range(-32768, 65535) as i32 })),
            37 => K::Blkw(match rng.below(6) { 0 => 1, 1 => 2, 2 if opts.big_padding => 200 + rng.below(900) as i32, _ => 1 + rng.below(12) as i32 }),
            _ => K::Stringz(gen_string(rng, opts.ascii_strings)),
        };
        v.push(GStmt { labels: vec![], k });
    }
    v
}

/// A generated program plus bookkeeping the oracles use.
#[derive(Clone, Debug)]
pub struct Program { pub stmts: Vec<GStmt> }

fn block_len(body: &[GStmt]) -> u32 { body.iter().map(|s| s.k.size()).sum() }

/// Generate a well-formed program: disjoint blocks below xFE00, labels unique ignoring case,
/// label operands in range, externals used only in .fill.
pub fn gen_program(rng: &mut Rng, opts: &GenOpts) -> Program {
    let nblocks = 1 + rng.usize(opts.max_blocks);
    // 1. bodies
    let mut bodies: Vec<Vec<GStmt>> = (0..nblocks).map(|_| {
        let n = match rng.below(10) { 0 => 0, 1 => 1, _ => 1 + rng.usize(opts.max_stmts_per_block) };
        gen_body(rng, n, opts)
    }).collect();
    // 2. origins: place blocks without overlap
    let mut placed: Vec<(u32, u32)> = vec![]; // (start, len)
    let mut origins = vec![];
    for body in bodies.iter_mut() {
        let mut len = block_len(body);
        let mut tries = 0;
        let start = loop {
            tries += 1;
            let cand: u32 = match rng.below(10) {
                0..=4 => *rng.pick(&ORIGINS) as u32,
                5 if len > 0 && len <= 0xFE00 => 0xFE00 - len,                 // ends exactly at xFE00
                6 if !placed.is_empty() => { let (s, l) = *rng.pick(&placed); s + l } // touches the end of another block
                7 if !placed.is_empty() => { let (s, _) = *rng.pick(&placed); s.saturating_sub(len) } // touches the start
                _ => rng.below(0xFE00) as u32,
            };
            let ok = cand + len <= 0xFE00 && cand <= 0xFFFF
                && (len == 0 || placed.iter().all(|&(s, l)| l == 0 || cand + len <= s || s + l <= cand));
            if ok { break cand; }
            if tries > 40 { body.clear(); len = 0; let _ = len; break *rng.pick(&ORIGINS) as u32; }
        };
        placed.push((start, block_len(body)));
        origins.push(start);
    }
    // 3. addresses of every statement, then labels
    let mut names: Vec<String> = vec![];
    let fresh = |rng: &mut Rng, names: &mut Vec<String>| -> String {
        loop {
            let n = gen_label_name(rng);
            if !names.iter().any(|m| m.eq_ignore_ascii_case(&n)) { names.push(n.clone()); return n; }
        }
    };
    // label definitions: (name, addr)
    let mut defs: Vec<(String, u32)> = vec![];
    let mut end_labels: Vec<Vec<String>> = vec![vec![]; nblocks];
    for (bi, body) in bodies.iter_mut().enumerate() {
        let mut lc = origins[bi];
        for st in body.iter_mut() {
            let nl = match rng.below(10) { 0..=5 => 0, 6..=8 => 1, _ => 2 + rng.usize(2) };
            for _ in 0..nl { let n = fresh(rng, &mut names); defs.push((n.clone(), lc)); st.labels.push(n); }
            lc += st.k.size();
        }
        if rng.chance(1, 6) { let n = fresh(rng, &mut names); defs.push((n.clone(), lc)); end_labels[bi].push(n); }
    }
    // 4. externals
    let mut externals: Vec<String> = vec![];
    if opts.externals && rng.chance(1, 3) { for _ in 0..1 + rng.usize(3) { externals.push(fresh(rng, &mut names)); } }
    // 5. label operands: replace some numeric PC operands by labels that are in range; .fill gets any label
    for (bi, body) in bodies.iter_mut().enumerate() {
        let mut lc = origins[bi];
        for st in body.iter_mut() {
            let here = lc;
            lc += st.k.size();
            if let K::Fill(op) = &mut st.k {
                if rng.chance(1, 3) && (!defs.is_empty() || !externals.is_empty()) {
                    let use_ext = !externals.is_empty() && (defs.is_empty() || rng.chance(1, 2));
                    let name = if use_ext { rng.pick(&externals).clone() } else { rng.pick(&defs).0.clone() };
                    *op = PcOp::Label(recase(rng, &name));
                }
                continue;
            }
            if matches!(st.k, K::Nop(None)) && rng.chance(1, 2) { st.k = K::Nop(Some(PcOp::Num(0))); }
            if let Some((op, bits)) = st.k.pc_operand_mut() {
                if rng.chance(1, 2) {
                    let lo = -(1i64 << (bits - 1));
                    let hi = (1i64 << (bits - 1)) - 1;
                    let cands: Vec<&(String, u32)> = defs.iter().filter(|(_, a)| {
                        let d = (*a as i64 - (here as i64 + 1)).rem_euclid(65536);
                        let d = if d >= 32768 { d - 65536 } else { d };
                        d >= lo && d <= hi
                    }).collect();
                    if !cands.is_empty() {
                        let name = rng.pick(&cands).0.clone();
                        *op = PcOp::Label(recase(rng, &name));
                    }
                }
            }
        }
    }
    // 6. assemble the statement list; .external anywhere
    let mut stmts = vec![];
    let mut ext_pending = externals.clone();
    rng.shuffle(&mut ext_pending);
    // inside a block an .external line may carry a label of its own (it labels the current location counter)
    let mut ext_label_no = 0u32;
    let mut place_ext = |rng: &mut Rng, stmts: &mut Vec<GStmt>, ext_pending: &mut Vec<String>, force: bool, inside: bool| {
        while !ext_pending.is_empty() && (force || rng.chance(1, 3)) {
            let n = ext_pending.pop().unwrap();
            let labels = if inside && rng.chance(1, 3) { ext_label_no += 1; vec![format!("{}{}q", if rng.bool() { "eL" } else { "El" }, ext_label_no)] } else { vec![] };
            stmts.push(GStmt { labels, k: K::External(recase(rng, &n)) });
        }
    };
    for (bi, body) in bodies.into_iter().enumerate() {
        place_ext(rng, &mut stmts, &mut ext_pending, false, false);
        stmts.push(GStmt { labels: vec![], k: K::Orig(origins[bi] as i32) });
        for st in body {
            if rng.chance(1, 12) { place_ext(rng, &mut stmts, &mut ext_pending, false, true); }
            stmts.push(st);
        }
        stmts.push(GStmt { labels: std::mem::take(&mut end_labels[bi]), k: K::End });
    }
    place_ext(rng, &mut stmts, &mut ext_pending, true, false);
    Program { stmts }
}

/// Pads a program so that one label operand sits exactly at `delta` words from its field limit
/// (0 = exactly at the limit, 1 = one past it -> fault). Returns a description if steering was applied.
pub fn steer_offset(rng: &mut Rng, prog: &mut Program, past_limit: bool) -> Option<String> {
    // pick a block with at least two sized statements; rebuild it as:  [instr with label operand] pad [target]  or reverse
    let origs: Vec<usize> = prog.stmts.iter().enumerate().filter(|(_, s)| matches!(s.k, K::Orig(_))).map(|(i, _)| i).collect();
    if origs.is_empty() { return None; }
    let oi = *rng.pick(&origs);
    let K::Orig(start) = prog.stmts[oi].k else { return None };
    let end = (oi + 1..prog.stmts.len()).find(|&i| matches!(prog.stmts[i].k, K::End))?;
    if prog.stmts[oi + 1..end].iter().any(|s| matches!(s.k, K::Orig(_))) { return None; }
    // only steer blocks that are the last in address order to avoid creating overlaps
    let my_len: u32 = prog.stmts[oi + 1..end].iter().map(|s| s.k.size()).sum();
    let others_above = prog.stmts.iter().any(|s| matches!(s.k, K::Orig(o) if o > start));
    if others_above { return None; }
    let bits = if rng.chance(1, 3) { 11 } else { 9 };
    let forward = rng.bool();
    let lim_fwd = (1i32 << (bits - 1)) - 1; // max positive offset
    let lim_back = 1i32 << (bits - 1);      // magnitude of the most negative offset
    let name = { let mut n; loop { n = gen_label_name(rng); if !prog.stmts.iter().any(|s| s.labels.iter().any(|l| l.eq_ignore_ascii_case(&n))) { break; } } n };
    let r = rng.below(8) as u8;
    let mk = |rng: &mut Rng, op: PcOp| -> K {
        if bits == 11 { K::Jsr(op) } else {
            match rng.below(7) { 0 => K::Br(1 + rng.below(7) as u8, op), 1 => K::Ld(r, op), 2 => K::Ldi(r, op), 3 => K::Lea(r, op), 4 => K::St(r, op), 5 => K::Sti(r, op), _ => K::Nop(Some(op)) }
        }
    };
    let extra = if past_limit { 1 } else { 0 };
    let mut new_stmts: Vec<GStmt> = vec![];
    let desc;
    if forward {
        // instr at A, target at A+1+lim (+1 when past the limit): pad = lim (+1) words between them
        let pad = lim_fwd + extra;
        if start as u32 + my_len + 2 + pad as u32 > 0xFE00 { return None; }
        { let nm = recase(rng, &name); new_stmts.push(GStmt { labels: vec![], k: mk(rng, PcOp::Label(nm)) }); }
        new_stmts.push(GStmt { labels: vec![], k: K::Blkw(pad) });
        new_stmts.push(GStmt { labels: vec![name.clone()], k: K::Fill(PcOp::Num(0)) });
        desc = format!("forward {bits}-bit offset {}", pad);
    } else {
        // target at T, instr at T + lim_back - 1 (+1): offset = T - (A+1) = -lim_back (-1)
        let pad = lim_back - 2 + extra; // words between target word and instr
        if start as u32 + my_len + 2 + pad as u32 > 0xFE00 { return None; }
        new_stmts.push(GStmt { labels: vec![name.clone()], k: K::Fill(PcOp::Num(0)) });
        new_stmts.push(GStmt { labels: vec![], k: K::Blkw(pad.max(1)) });
        if pad < 1 { return None; }
        { let nm = recase(rng, &name); new_stmts.push(GStmt { labels: vec![], k: mk(rng, PcOp::Label(nm)) }); }
        desc = format!("backward {bits}-bit offset {}", -(pad + 2));
    }
    // append at the end of the chosen block
    let tail: Vec<GStmt> = prog.stmts.split_off(end);
    prog.stmts.extend(new_stmts);
    prog.stmts.extend(tail);
    Some(desc)
}

// ------------------------------------------------------------------------------------------
// Surface renderer
// ------------------------------------------------------------------------------------------

#[derive(Clone, Debug, Default)]
pub struct RStmt { pub label_spans: Vec<Range<usize>>, pub nucleus: Range<usize>, pub line: usize, pub operand_label_span: Option<Range<usize>> }

#[derive(Clone, Debug, Default)]
pub struct Rendered { pub text: String, pub stmts: Vec<RStmt>, pub features: Vec<&'static str> }

#[derive(Clone, Debug)]
pub struct Style {
    pub crlf: u8,          // 0 = LF, 1 = CRLF, 2 = mixed
    pub case: u8,          // 0 upper, 1 lower, 2 random per token
    pub hostile_comments: bool,
    pub plain: bool,       // minimal surface (one statement per line, single spaces)
}
impl Style {
    pub fn random(rng: &mut Rng) -> Style {
        Style { crlf: match rng.below(6) { 0 | 1 => 1, 2 => 2, _ => 0 }, case: rng.below(3) as u8, hostile_comments: rng.chance(1, 2), plain: false }
    }
    pub fn plain() -> Style { Style { crlf: 0, case: 0, hostile_comments: false, plain: true } }
}

struct R<'a> { out: String, rng: &'a mut Rng, st: Style, feats: Vec<&'static str> }

impl<'a> R<'a> {
    fn feat(&mut self, f: &'static str) { if !self.feats.contains(&f) { self.feats.push(f); } }
    fn kw(&mut self, s: &str) -> String {
        match self.st.case {
            0 => s.to_ascii_uppercase(),
            1 => { self.feat("lowercase-keyword"); s.to_ascii_lowercase() }
            _ => { self.feat("mixedcase-keyword"); let r = &mut *self.rng; s.chars().map(|c| if r.bool() { c.to_ascii_uppercase() } else { c.to_ascii_lowercase() }).collect() }
        }
    }
    fn ws(&mut self, min: usize) {
        if self.st.plain { for _ in 0..min { self.out.push(' '); } return; }
        let n = min + match self.rng.below(6) { 0 => 1, 1 => 2 + self.rng.usize(5), _ => 0 };
        for _ in 0..n { if self.rng.chance(1, 5) { self.feat("tab"); self.out.push('\t'); } else { self.out.push(' '); } }
    }
    fn comment(&mut self) {
        self.out.push(';');
        let n = self.rng.usize(20);
        for _ in 0..n {
            let c = if self.st.hostile_comments {
                match self.rng.below(12) {
                    0 => '"', 1 => '\\', 2 => ';', 3 => '\t', 4 => *self.rng.pick(&['é', '🦀', '中', '\u{1}', '\u{7f}', '\0']), 5 => '.', 6 => '#', 7 => ':', 8 => ',',
                    _ => (0x20 + self.rng.below(0x5f) as u8) as char,
                }
            } else { (0x20 + self.rng.below(0x5f) as u8) as char };
            self.out.push(c);
        }
        if self.st.hostile_comments { self.feat("hostile-comment"); } else { self.feat("comment"); }
    }
    fn eol(&mut self) {
        let crlf = match self.st.crlf { 0 => false, 1 => true, _ => self.rng.bool() };
        if crlf { self.feat("crlf"); self.out.push('\r'); }
        self.out.push('\n');
    }
    fn end_line(&mut self) {
        if !self.st.plain {
            self.ws(0);
            if self.rng.chance(1, 4) { self.comment(); }
        }
        self.eol();
        if !self.st.plain {
            while self.rng.chance(1, 6) {
                self.feat("blank-or-comment-line");
                self.ws(0);
                if self.rng.bool() { self.comment(); }
                self.eol();
            }
        }
    }
    fn reg(&mut self, r: u8) {
        let c = match self.st.case { 0 => 'R', 1 => 'r', _ => if self.rng.bool() { 'R' } else { 'r' } };
        self.out.push(c);
        if !self.st.plain && self.rng.chance(1, 12) { self.feat("reg-leading-zero"); self.out.push('0'); }
        self.out.push((b'0' + r) as char);
    }
    /// writes a number; `signed_ctx`: field is signed (unsigned notation only allowed for v >= 0)
    fn num(&mut self, v: i32) {
        let lead = if !self.st.plain && self.rng.chance(1, 8) { self.feat("leading-zeros"); "00" } else { "" };
        let xc = match self.st.case { 0 => 'x', 1 => 'X', _ => if self.rng.bool() { 'x' } else { 'X' } };
        let hexup = self.rng.bool();
        let hex = |m: u32| if hexup { format!("{m:X}") } else { format!("{m:x}") };
        let s = if v == 0 && !self.st.plain && self.rng.chance(1, 8) {
            // zero written in a signed notation
            self.feat("num:signed-zero");
            match self.rng.below(3) { 0 => format!("#-{lead}0"), 1 => format!("-{lead}0"), _ => format!("{xc}-{lead}0") }
        } else if v < 0 {
            let m = (-(v as i64)) as u32;
            match if self.st.plain { 0 } else { self.rng.below(3) } {
                0 => { self.feat("num:#-n"); format!("#-{lead}{m}") }
                1 => { self.feat("num:-n"); format!("-{lead}{m}") }
                _ => { self.feat("num:x-H"); format!("{xc}-{lead}{}", hex(m)) }
            }
        } else {
            let m = v as u32;
            match if self.st.plain { 0 } else { self.rng.below(3) } {
                0 => { self.feat("num:#n"); format!("#{lead}{m}") }
                1 => { self.feat("num:n"); format!("{lead}{m}") }
                _ => { self.feat("num:xH"); format!("{xc}{lead}{}", hex(m)) }
            }
        };
        self.out.push_str(&s);
    }
    fn comma(&mut self) {
        self.ws(0);
        self.out.push(',');
        self.ws(if self.st.plain { 1 } else { 0 });
    }
    fn pcop(&mut self, op: &PcOp) -> Option<Range<usize>> {
        match op {
            PcOp::Num(v) => { self.num(*v); None }
            PcOp::Label(l) => { let s = self.out.len(); self.out.push_str(l); Some(s..self.out.len()) }
        }
    }
    fn string_lit(&mut self, s: &str) {
        self.out.push('"');
        let chars: Vec<char> = s.chars().collect();
        let mut i = 0;
        while i < chars.len() {
            let c = chars[i];
            match c {
                '"' => self.out.push_str("\\\""),
                '\n' => self.out.push_str("\\n"),
                '\r' => self.out.push_str("\\r"),
                '\t' => if self.rng.bool() { self.out.push_str("\\t") } else { self.out.push('\t') },
                '\0' => self.out.push_str("\\0"),
                '\\' => {
                    // "\q" (unknown escape) keeps both characters: use that spelling sometimes
                    let next = chars.get(i + 1).copied();
                    let unknown_escape_ok = matches!(next, Some(n) if !matches!(n, 'n' | 'r' | 't' | '\\' | '0' | '"' | '\n' | '\r' | '\t' | '\0'));
                    if unknown_escape_ok && !next.unwrap().is_ascii() { self.feat("unknown-escape-non-ascii"); }
                    if unknown_escape_ok && self.rng.chance(1, 3) { self.feat("unknown-escape"); self.out.push('\\'); self.out.push(next.unwrap()); i += 1; }
                    else { self.out.push_str("\\\\"); }
                }
                c => self.out.push(c),
            }
            i += 1;
        }
        self.out.push('"');
    }
}

/// Render statements as source text with randomized surface syntax; records spans and lines.
pub fn render(rng: &mut Rng, stmts: &[GStmt], style: &Style) -> Rendered {
    let mut r = R { out: String::new(), rng, st: style.clone(), feats: vec![] };
    let mut infos = vec![];
    if !r.st.plain && r.rng.chance(1, 4) { r.end_line(); }
    for (si, st) in stmts.iter().enumerate() {
        let mut info = RStmt::default();
        r.ws(0);
        for l in &st.labels {
            let s = r.out.len();
            r.out.push_str(l);
            info.label_spans.push(s..r.out.len());
            if !r.st.plain && r.rng.chance(1, 3) {
                if r.rng.chance(1, 6) { r.ws(1); }
                r.feat("colon");
                r.out.push(':');
            }
            if !r.st.plain && r.rng.chance(1, 4) {
                r.feat("label-on-own-line");
                r.end_line();
                r.ws(0);
            } else {
                r.ws(1);
            }
        }
        let ns = r.out.len();
        let mut oplabel = None;
        let name = st.k.name();
        match &st.k {
            K::Add(d, s, x) | K::And(d, s, x) => {
                let m = r.kw(&name[..3]); r.out.push_str(&m); r.ws(1);
                r.reg(*d); r.comma(); r.reg(*s); r.comma();
                match x { Src::Reg(t) => r.reg(*t), Src::Imm(v) => r.num(*v) }
            }
            K::Br(c, op) => {
                let mut m = String::from("BR");
                let full = *c == 7 && r.rng.bool();
                if *c != 7 || full { if c & 4 != 0 { m.push('n'); } if c & 2 != 0 { m.push('z'); } if c & 1 != 0 { m.push('p'); } }
                let m = r.kw(&m); r.out.push_str(&m); r.ws(1);
                oplabel = r.pcop(op);
            }
            K::Jmp(x) | K::Jsrr(x) => { let m = r.kw(name); r.out.push_str(&m); r.ws(1); r.reg(*x); }
            K::Jsr(op) => { let m = r.kw(name); r.out.push_str(&m); r.ws(1); oplabel = r.pcop(op); }
            K::Ld(d, op) | K::Ldi(d, op) | K::Lea(d, op) | K::St(d, op) | K::Sti(d, op) => {
                let m = r.kw(name); r.out.push_str(&m); r.ws(1); r.reg(*d); r.comma(); oplabel = r.pcop(op);
            }
            K::Ldr(d, b, o) | K::Str(d, b, o) => {
                let m = r.kw(name); r.out.push_str(&m); r.ws(1); r.reg(*d); r.comma(); r.reg(*b); r.comma(); r.num(*o);
            }
            K::Not(d, s) => { let m = r.kw(name); r.out.push_str(&m); r.ws(1); r.reg(*d); r.comma(); r.reg(*s); }
            K::Trap(v) => { let m = r.kw(name); r.out.push_str(&m); r.ws(1); r.num(*v); }
            K::Nop(None) => { let m = r.kw(name); r.out.push_str(&m); }
            K::Nop(Some(op)) => { let m = r.kw(name); r.out.push_str(&m); r.ws(1); oplabel = r.pcop(op); }
            K::Ret | K::Rti | K::Getc | K::Out | K::Putc | K::Puts | K::In | K::Putsp | K::Halt | K::End => { let m = r.kw(name); r.out.push_str(&m); }
            K::Orig(a) => {
                let m = r.kw(name); r.out.push_str(&m); r.ws(1);
                if r.st.plain || r.rng.chance(2, 3) { let xc = if r.st.case == 1 { 'X' } else { 'x' }; let s = format!("{xc}{:04X}", *a as u32); r.out.push_str(&s); } else { r.num(*a); }
            }
            K::Fill(op) => { let m = r.kw(name); r.out.push_str(&m); r.ws(1); oplabel = r.pcop(op); }
            K::Blkw(n) => { let m = r.kw(name); r.out.push_str(&m); r.ws(1); r.num(*n); }
            K::Stringz(s) => { let m = r.kw(name); r.out.push_str(&m); r.ws(1); r.string_lit(s); }
            K::External(l) => { let m = r.kw(name); r.out.push_str(&m); r.ws(1); let s = r.out.len(); r.out.push_str(l); oplabel = Some(s..r.out.len()); }
        }
        info.nucleus = ns..r.out.len();
        info.line = r.out[..ns].bytes().filter(|b| *b == b'\n').count();
        info.operand_label_span = oplabel;
        infos.push(info);
        // last statement may lack a line terminator
        if si + 1 == stmts.len() && !r.st.plain && r.rng.chance(1, 4) { r.feat("no-final-newline"); } else { r.end_line(); }
    }
    Rendered { text: r.out, stmts: infos, features: r.feats }
}

// ------------------------------------------------------------------------------------------
// Bridge from the crate's AST to the generator's statement type (for comparison only)
// ------------------------------------------------------------------------------------------
use lc3_ensemble::ast::asm::{AsmInstr, Directive, Stmt, StmtKind};
use lc3_ensemble::ast::{ImmOrReg, PCOffset};

fn pc_i<const N: u32>(o: &PCOffset<i16, N>) -> PcOp {
    match o { PCOffset::Offset(v) => PcOp::Num(v.get() as i32), PCOffset::Label(l) => PcOp::Label(l.name.clone()) }
}
fn src5(x: &ImmOrReg<5>) -> Src { match x { ImmOrReg::Imm(v) => Src::Imm(v.get() as i32), ImmOrReg::Reg(r) => Src::Reg(r.reg_no()) } }

pub fn from_crate(st: &Stmt) -> GStmt {
    let k = match &st.nucleus {
        StmtKind::Instr(i) => match i {
            AsmInstr::ADD(d, s, x) => K::Add(d.reg_no(), s.reg_no(), src5(x)),
            AsmInstr::AND(d, s, x) => K::And(d.reg_no(), s.reg_no(), src5(x)),
            AsmInstr::BR(c, o) => K::Br(*c, pc_i(o)),
            AsmInstr::JMP(r) => K::Jmp(r.reg_no()),
            AsmInstr::JSR(o) => K::Jsr(pc_i(o)),
            AsmInstr::JSRR(r) => K::Jsrr(r.reg_no()),
            AsmInstr::LD(d, o) => K::Ld(d.reg_no(), pc_i(o)),
            AsmInstr::LDI(d, o) => K::Ldi(d.reg_no(), pc_i(o)),
            AsmInstr::LDR(d, b, o) => K::Ldr(d.reg_no(), b.reg_no(), o.get() as i32),
            AsmInstr::LEA(d, o) => K::Lea(d.reg_no(), pc_i(o)),
            AsmInstr::NOT(d, s) => K::Not(d.reg_no(), s.reg_no()),
            AsmInstr::RET => K::Ret, AsmInstr::RTI => K::Rti,
            AsmInstr::ST(d, o) => K::St(d.reg_no(), pc_i(o)),
            AsmInstr::STI(d, o) => K::Sti(d.reg_no(), pc_i(o)),
            AsmInstr::STR(d, b, o) => K::Str(d.reg_no(), b.reg_no(), o.get() as i32),
            AsmInstr::TRAP(v) => K::Trap(v.get() as i32),
            AsmInstr::NOP(o) => K::Nop(Some(pc_i(o))),
            AsmInstr::GETC => K::Getc, AsmInstr::OUT => K::Out, AsmInstr::PUTC => K::Putc, AsmInstr::PUTS => K::Puts,
            AsmInstr::IN => K::In, AsmInstr::PUTSP => K::Putsp, AsmInstr::HALT => K::Halt,
        },
        StmtKind::Directive(d) => match d {
            Directive::Orig(a) => K::Orig(a.get() as i32),
            Directive::Fill(PCOffset::Offset(v)) => K::Fill(PcOp::Num(v.get() as i32)),
            Directive::Fill(PCOffset::Label(l)) => K::Fill(PcOp::Label(l.name.clone())),
            Directive::Blkw(n) => K::Blkw(n.get() as i32),
            Directive::Stringz(s) => K::Stringz(s.clone()),
            Directive::End => K::End,
            Directive::External(l) => K::External(l.name.clone()),
        },
    };
    GStmt { labels: st.labels.iter().map(|l| l.name.clone()).collect(), k }
}

/// Normal form used to compare a generated statement with the crate's parse of its rendering.
pub fn normalize(st: &GStmt) -> GStmt {
    let mut s = st.clone();
    s.k = match s.k {
        K::Nop(None) => K::Nop(Some(PcOp::Num(0))),
        K::Fill(PcOp::Num(v)) => K::Fill(PcOp::Num(v & 0xFFFF)),
        k => k,
    };
    s
}

//! generators

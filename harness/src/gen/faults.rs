//! Fault injector for C02/C26: mutates a (usually well-formed) program. The oracle never trusts the
//! injector: the reference classifier re-derives the verdict from the mutated statement list.
use super::*;

pub const FAULTS: [&str; 16] = ["drop_end", "drop_orig", "extra_end", "nested_orig", "stmt_outside", "label_outside", "dup_label",
    "dup_label_same_addr", "undef_label", "delete_def", "offset_past_limit", "block_past_io", "block_to_x10000", "overlap", "ext_in_pcrel", "ext_and_defined"];

fn block_spans(p: &Program) -> Vec<(usize, usize)> {
    // (index of .orig, index of matching .end) for well-nested parts
    let mut v = vec![];
    let mut open = None;
    for (i, s) in p.stmts.iter().enumerate() {
        match s.k { K::Orig(_) => open = Some(i), K::End => { if let Some(o) = open.take() { v.push((o, i)); } } _ => {} }
    }
    v
}
fn blen(p: &Program, o: usize, e: usize) -> u32 { p.stmts[o + 1..e].iter().map(|s| s.k.size()).sum() }

/// Applies one fault of the given kind; returns false when the program offers no place for it.
pub fn inject(rng: &mut Rng, p: &mut Program, fault: &str) -> bool {
    let spans = block_spans(p);
    match fault {
        "drop_end" => { if spans.is_empty() { return false; } let (_, e) = *rng.pick(&spans); p.stmts.remove(e); true }
        "drop_orig" => { if spans.is_empty() { return false; } let (o, _) = *rng.pick(&spans); p.stmts.remove(o); true }
        "extra_end" => {
            let pos = if spans.is_empty() || rng.chance(1, 3) { rng.usize(p.stmts.len() + 1) } else { let (_, e) = *rng.pick(&spans); e + 1 };
            // only outside of blocks, otherwise it merely splits a block
            let inside = spans.iter().any(|&(o, e)| pos > o && pos <= e);
            if inside { return false; }
            p.stmts.insert(pos, GStmt { labels: vec![], k: K::End }); true
        }
        "nested_orig" => {
            if spans.is_empty() { return false; }
            let (o, e) = *rng.pick(&spans);
            let pos = o + 1 + rng.usize(e - o);
            p.stmts.insert(pos, GStmt { labels: vec![], k: K::Orig(*rng.pick(&ORIGINS) as i32) }); true
        }
        "stmt_outside" => {
            let cands: Vec<usize> = spans.iter().flat_map(|&(o, e)| (o + 1..e)).filter(|&i| !matches!(p.stmts[i].k, K::External(_))).collect();
            if cands.is_empty() { return false; }
            let i = *rng.pick(&cands);
            let mut st = p.stmts.remove(i);
            if rng.bool() { st.labels.clear(); }
            // insert before the first .orig, after the last .end, or right after some .end
            let spans = block_spans(p);
            let pos = match rng.below(3) { 0 => 0, 1 => p.stmts.len(), _ => if spans.is_empty() { 0 } else { rng.pick(&spans).1 + 1 } };
            let inside = spans.iter().any(|&(o, e)| pos > o && pos <= e);
            let pos = if inside { p.stmts.len() } else { pos };
            p.stmts.insert(pos, st); true
        }
        "label_outside" => {
            let name = gen_label_name(rng);
            // on an .orig, or on a fresh .external placed outside blocks
            let origs: Vec<usize> = p.stmts.iter().enumerate().filter(|(_, s)| matches!(s.k, K::Orig(_))).map(|(i, _)| i).collect();
            if !origs.is_empty() && rng.bool() { let i = *rng.pick(&origs); p.stmts[i].labels.push(name); }
            else { let ext = gen_label_name(rng); p.stmts.insert(0, GStmt { labels: vec![name], k: K::External(ext) }); }
            true
        }
        "dup_label" | "dup_label_same_addr" => {
            let defs: Vec<(usize, String)> = p.stmts.iter().enumerate().flat_map(|(i, s)| s.labels.iter().map(move |l| (i, l.clone()))).collect();
            if defs.is_empty() { return false; }
            let (di, name) = rng.pick(&defs).clone();
            let new = recase(rng, &name);
            if fault == "dup_label_same_addr" { p.stmts[di].labels.push(new); return true; }
            let cands: Vec<usize> = spans.iter().flat_map(|&(o, e)| (o + 1..=e)).filter(|&i| i != di).collect();
            if cands.is_empty() { return false; }
            let i = *rng.pick(&cands);
            p.stmts[i].labels.push(new); true
        }
        "undef_label" => {
            let cands: Vec<usize> = p.stmts.iter().enumerate().filter(|(_, s)| s.k.pc_operand().is_some() || matches!(s.k, K::Fill(_))).map(|(i, _)| i).collect();
            if cands.is_empty() { return false; }
            let i = *rng.pick(&cands);
            let name = format!("{}_undef", gen_label_name(rng));
            match &mut p.stmts[i].k { K::Fill(op) => *op = PcOp::Label(name), k => { if let Some((op, _)) = k.pc_operand_mut() { *op = PcOp::Label(name); } } }
            true
        }
        "delete_def" => {
            // delete the definition of a label that is used somewhere
            let used: Vec<String> = p.stmts.iter().filter_map(|s| match &s.k { K::Fill(PcOp::Label(l)) => Some(l.clone()), k => match k.pc_operand() { Some((PcOp::Label(l), _)) => Some(l.clone()), _ => None } }).collect();
            if used.is_empty() { return false; }
            let u = rng.pick(&used).clone();
            let mut done = false;
            for s in p.stmts.iter_mut() {
                let before = s.labels.len();
                s.labels.retain(|l| !l.eq_ignore_ascii_case(&u));
                if s.labels.len() != before { done = true; }
            }
            if !done { p.stmts.retain(|s| !matches!(&s.k, K::External(l) if l.eq_ignore_ascii_case(&u))); done = true; }
            done
        }
        "offset_past_limit" => steer_offset(rng, p, true).is_some(),
        "block_past_io" | "block_to_x10000" => {
            let cands: Vec<(usize, usize)> = spans.iter().copied().filter(|&(o, e)| blen(p, o, e) > 0).collect();
            if cands.is_empty() { return false; }
            let (o, e) = *rng.pick(&cands);
            let len = blen(p, o, e);
            let start: i64 = if fault == "block_past_io" {
                match rng.below(3) { 0 => 0xFE00 - len as i64 + 1, 1 => 0xFE00 + rng.below(0x1F0) as i64, _ => 0xFE00 - len as i64 + 1 + rng.below(len as u64) as i64 }
            } else {
                match rng.below(3) { 0 => 0x10000 - len as i64, 1 => 0x10000 - len as i64 + 1, _ => 0xFFFF }
            };
            if !(0..=0xFFFF).contains(&start) { return false; }
            p.stmts[o].k = K::Orig(start as i32); true
        }
        "overlap" => {
            let cands: Vec<(usize, usize)> = spans.iter().copied().filter(|&(o, e)| blen(p, o, e) > 0).collect();
            if cands.len() < 2 { return false; }
            let a = rng.usize(cands.len());
            let mut b = rng.usize(cands.len());
            if a == b { b = (b + 1) % cands.len(); }
            let (oa, ea) = cands[a]; let (ob, eb) = cands[b];
            let K::Orig(sa) = p.stmts[oa].k else { return false };
            let (la, lb) = (blen(p, oa, ea) as i64, blen(p, ob, eb) as i64);
            // new start of b so that the ranges overlap by at least one word
            let lo = sa as i64 - lb + 1; let hi = sa as i64 + la - 1;
            let nb = match rng.below(4) { 0 => lo, 1 => hi, 2 => sa as i64, _ => rng.range(lo, hi) };
            if nb < 0 || nb + lb > 0xFE00 { return false; }
            p.stmts[ob].k = K::Orig(nb as i32); true
        }
        "ext_in_pcrel" => {
            let cands: Vec<usize> = spans.iter().flat_map(|&(o, e)| (o + 1..e)).filter(|&i| p.stmts[i].k.pc_operand().is_some()).collect();
            if cands.is_empty() { return false; }
            let i = *rng.pick(&cands);
            let name = format!("{}_ext", gen_label_name(rng));
            if let Some((op, _)) = p.stmts[i].k.pc_operand_mut() { *op = PcOp::Label(recase(rng, &name)); }
            let pos = rng.usize(p.stmts.len() + 1);
            p.stmts.insert(pos, GStmt { labels: vec![], k: K::External(name) }); true
        }
        "ext_and_defined" => {
            let cands: Vec<usize> = spans.iter().flat_map(|&(o, e)| (o + 1..=e)).collect();
            if cands.is_empty() { return false; }
            let i = *rng.pick(&cands);
            let name = format!("{}_xd", gen_label_name(rng));
            p.stmts[i].labels.push(recase(rng, &name));
            let pos = if rng.bool() { 0 } else { p.stmts.len() };
            p.stmts.insert(pos, GStmt { labels: vec![], k: K::External(name) }); true
        }
        _ => false,
    }
}

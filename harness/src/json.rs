//! Minimal JSON value, writer and parser (no external crates are available offline
//! that are worth the dependency risk).
use std::collections::BTreeMap;
use std::fmt::Write;

#[derive(Debug, Clone, PartialEq)]
pub enum Json {
    Null,
    Bool(bool),
    Int(i64),
    Float(f64),
    Str(String),
    Arr(Vec<Json>),
    Obj(BTreeMap<String, Json>),
}

impl Json {
    pub fn obj() -> Json { Json::Obj(BTreeMap::new()) }
    pub fn set(mut self, k: &str, v: impl Into<Json>) -> Json {
        if let Json::Obj(m) = &mut self { m.insert(k.to_string(), v.into()); }
        self
    }
    pub fn put(&mut self, k: &str, v: impl Into<Json>) {
        if let Json::Obj(m) = self { m.insert(k.to_string(), v.into()); }
    }
    pub fn get(&self, k: &str) -> Option<&Json> {
        match self { Json::Obj(m) => m.get(k), _ => None }
    }
    pub fn as_str(&self) -> Option<&str> { match self { Json::Str(s) => Some(s), _ => None } }
    pub fn as_i64(&self) -> Option<i64> { match self { Json::Int(i) => Some(*i), Json::Float(f) => Some(*f as i64), _ => None } }
    pub fn as_u64(&self) -> Option<u64> { self.as_i64().map(|i| i as u64) }
    pub fn as_arr(&self) -> Option<&[Json]> { match self { Json::Arr(a) => Some(a), _ => None } }
    pub fn as_obj(&self) -> Option<&BTreeMap<String, Json>> { match self { Json::Obj(a) => Some(a), _ => None } }
    pub fn str_of(&self, k: &str) -> String { self.get(k).and_then(|j| j.as_str()).unwrap_or("").to_string() }
    pub fn u64_of(&self, k: &str) -> u64 { self.get(k).and_then(|j| j.as_u64()).unwrap_or(0) }

    pub fn to_string(&self) -> String { let mut s = String::new(); self.write(&mut s, None, 0); s }
    pub fn pretty(&self) -> String { let mut s = String::new(); self.write(&mut s, Some(1), 0); s.push('\n'); s }

    fn write(&self, out: &mut String, indent: Option<usize>, level: usize) {
        let nl = |out: &mut String, level: usize| {
            if let Some(n) = indent { out.push('\n'); for _ in 0..(n * level) { out.push(' '); } }
        };
        match self {
            Json::Null => out.push_str("null"),
            Json::Bool(b) => out.push_str(if *b { "true" } else { "false" }),
            Json::Int(i) => { let _ = write!(out, "{i}"); }
            Json::Float(f) => {
                if f.is_finite() { let _ = write!(out, "{f:.3}"); } else { out.push_str("null"); }
            }
            Json::Str(s) => write_str(out, s),
            Json::Arr(a) => {
                out.push('[');
                for (i, v) in a.iter().enumerate() {
                    if i > 0 { out.push(','); }
                    nl(out, level + 1);
                    v.write(out, indent, level + 1);
                }
                if !a.is_empty() { nl(out, level); }
                out.push(']');
            }
            Json::Obj(m) => {
                out.push('{');
                for (i, (k, v)) in m.iter().enumerate() {
                    if i > 0 { out.push(','); }
                    nl(out, level + 1);
                    write_str(out, k);
                    out.push(':');
                    if indent.is_some() { out.push(' '); }
                    v.write(out, indent, level + 1);
                }
                if !m.is_empty() { nl(out, level); }
                out.push('}');
            }
        }
    }

    pub fn parse(s: &str) -> Result<Json, String> {
        let mut p = P { b: s.as_bytes(), i: 0 };
        p.ws();
        let v = p.value()?;
        p.ws();
        if p.i != p.b.len() { return Err(format!("trailing data at {}", p.i)); }
        Ok(v)
    }
}

fn write_str(out: &mut String, s: &str) {
    out.push('"');
    for c in s.chars() {
        match c {
            '"' => out.push_str("\\\""),
            '\\' => out.push_str("\\\\"),
            '\n' => out.push_str("\\n"),
            '\r' => out.push_str("\\r"),
            '\t' => out.push_str("\\t"),
            c if (c as u32) < 0x20 || c == '\u{7f}' => { let _ = write!(out, "\\u{:04x}", c as u32); }
            c => out.push(c),
        }
    }
    out.push('"');
}

struct P<'a> { b: &'a [u8], i: usize }
impl<'a> P<'a> {
    fn ws(&mut self) { while self.i < self.b.len() && matches!(self.b[self.i], b' ' | b'\n' | b'\r' | b'\t') { self.i += 1; } }
    fn value(&mut self) -> Result<Json, String> {
        self.ws();
        match self.b.get(self.i) {
            None => Err("eof".into()),
            Some(b'{') => {
                self.i += 1;
                let mut m = BTreeMap::new();
                self.ws();
                if self.b.get(self.i) == Some(&b'}') { self.i += 1; return Ok(Json::Obj(m)); }
                loop {
                    self.ws();
                    let k = match self.value()? { Json::Str(s) => s, _ => return Err("key".into()) };
                    self.ws();
                    if self.b.get(self.i) != Some(&b':') { return Err(format!("expected : at {}", self.i)); }
                    self.i += 1;
                    let v = self.value()?;
                    m.insert(k, v);
                    self.ws();
                    match self.b.get(self.i) {
                        Some(b',') => { self.i += 1; }
                        Some(b'}') => { self.i += 1; return Ok(Json::Obj(m)); }
                        _ => return Err(format!("expected , or }} at {}", self.i)),
                    }
                }
            }
            Some(b'[') => {
                self.i += 1;
                let mut a = vec![];
                self.ws();
                if self.b.get(self.i) == Some(&b']') { self.i += 1; return Ok(Json::Arr(a)); }
                loop {
                    a.push(self.value()?);
                    self.ws();
                    match self.b.get(self.i) {
                        Some(b',') => { self.i += 1; }
                        Some(b']') => { self.i += 1; return Ok(Json::Arr(a)); }
                        _ => return Err(format!("expected , or ] at {}", self.i)),
                    }
                }
            }
            Some(b'"') => {
                self.i += 1;
                let mut s = String::new();
                loop {
                    let Some(&c) = self.b.get(self.i) else { return Err("unterminated string".into()) };
                    self.i += 1;
                    match c {
                        b'"' => return Ok(Json::Str(s)),
                        b'\\' => {
                            let Some(&e) = self.b.get(self.i) else { return Err("bad escape".into()) };
                            self.i += 1;
                            match e {
                                b'n' => s.push('\n'), b'r' => s.push('\r'), b't' => s.push('\t'),
                                b'b' => s.push('\u{8}'), b'f' => s.push('\u{c}'),
                                b'u' => {
                                    let h = std::str::from_utf8(self.b.get(self.i..self.i + 4).ok_or("bad \\u")?).map_err(|e| e.to_string())?;
                                    let cp = u32::from_str_radix(h, 16).map_err(|e| e.to_string())?;
                                    self.i += 4;
                                    s.push(char::from_u32(cp).unwrap_or('\u{fffd}'));
                                }
                                other => s.push(other as char),
                            }
                        }
                        _ => {
                            // copy a full UTF-8 sequence
                            let start = self.i - 1;
                            let len = if c < 0x80 { 1 } else if c >> 5 == 0b110 { 2 } else if c >> 4 == 0b1110 { 3 } else { 4 };
                            let end = (start + len).min(self.b.len());
                            s.push_str(&String::from_utf8_lossy(&self.b[start..end]));
                            self.i = end;
                        }
                    }
                }
            }
            Some(b't') if self.b[self.i..].starts_with(b"true") => { self.i += 4; Ok(Json::Bool(true)) }
            Some(b'f') if self.b[self.i..].starts_with(b"false") => { self.i += 5; Ok(Json::Bool(false)) }
            Some(b'n') if self.b[self.i..].starts_with(b"null") => { self.i += 4; Ok(Json::Null) }
            Some(_) => {
                let st = self.i;
                while self.i < self.b.len() && matches!(self.b[self.i], b'-' | b'+' | b'.' | b'e' | b'E' | b'0'..=b'9') { self.i += 1; }
                let t = std::str::from_utf8(&self.b[st..self.i]).unwrap();
                if let Ok(i) = t.parse::<i64>() { Ok(Json::Int(i)) }
                else if let Ok(f) = t.parse::<f64>() { Ok(Json::Float(f)) }
                else { Err(format!("bad token at {st}")) }
            }
        }
    }
}

impl From<&str> for Json { fn from(s: &str) -> Json { Json::Str(s.to_string()) } }
impl From<String> for Json { fn from(s: String) -> Json { Json::Str(s) } }
impl From<&String> for Json { fn from(s: &String) -> Json { Json::Str(s.clone()) } }
impl From<bool> for Json { fn from(b: bool) -> Json { Json::Bool(b) } }
impl From<i64> for Json { fn from(i: i64) -> Json { Json::Int(i) } }
impl From<i32> for Json { fn from(i: i32) -> Json { Json::Int(i as i64) } }
impl From<u64> for Json { fn from(i: u64) -> Json { Json::Int(i as i64) } }
impl From<u32> for Json { fn from(i: u32) -> Json { Json::Int(i as i64) } }
impl From<u16> for Json { fn from(i: u16) -> Json { Json::Int(i as i64) } }
impl From<usize> for Json { fn from(i: usize) -> Json { Json::Int(i as i64) } }
impl From<f64> for Json { fn from(f: f64) -> Json { Json::Float(f) } }
impl<T: Into<Json>> From<Vec<T>> for Json { fn from(v: Vec<T>) -> Json { Json::Arr(v.into_iter().map(Into::into).collect()) } }

//! C32 Memory-mapped I/O reaches exactly the mapped register or device.
use super::*;
use crate::json::Json;
use crate::rng::Rng;
use crate::simutil::*;
use lc3_ensemble::sim::device::NullDevice;
use lc3_ensemble::sim::mem::{MachineInitStrategy, Word};
use lc3_ensemble::sim::{InternalRegister, SimFlags, Simulator};
use std::collections::BTreeMap;

pub fn prop() -> Prop {
    Prop {
        id: "C32", title: "Memory-mapped I/O reaches exactly the mapped register or device", level: "exploration",
        rule: "Histories over the operations add_device(recording device, port set), remove_device(id), set_keyboard / set_display (recording device or NullDevice), mmap_internal(port, register), munmap_internal(port), read(port), write(port, value) are executed on a real Simulator and on a \
               port-table model (internal register first, else owning device, else nothing; add succeeds iff every port is an I/O address not owned by a device; removal frees ports except the keyboard/display ports; ids strictly increase). \
               Phase 0: BOUNDED-EXHAUSTIVE - every sequence of length <= 4 (quick) / <= 5 (thorough) over a reduced alphabet (ports KBSR, DDR, xFE10, xFE11, xFFFC, xFFF0, x3000; 3 recording devices; 2 internal registers) followed by a read and a write probe of every port. \
               Phase 1: random histories of length <= 60 over all I/O ports. Compared after every operation: return values (device id or refusal, mapping result, value read), which recording device logged which call with which address/data, and the memory word at the port \
               (unowned writes must leave it unchanged). Non-trivial = history with at least one add/remove/mmap; distinct = distinct histories.",
        assumptions: &["port-table model written from the property text", "reads use a privileged, effectful context"],
        exhaustive: never, run, guard,
        level_text: "Model-based runtime monitoring: bounded-exhaustive operation sequences (depth 4 quick / 5 thorough over a reduced alphabet of 28 operations) plus long random histories, each replayed on the real device handler and on a small port-table model with recording devices as probes.",
        level_note: "Exhaustive only up to the stated depth and alphabet; the model is trusted.",
        technique: "model-based history checking with recording devices (bounded-exhaustive + random)",
        ..Prop::base("C32", "")
    }
}

#[derive(Clone, Debug, PartialEq)]
enum Op { /// tag 0 = the library's NullDevice (owns its ports, answers nothing)
    Add(u16, Vec<u16>), Remove(u16), SetKbd(Option<u16>), SetDisp(Option<u16>), Mmap(u16, u8), Munmap(u16), Read(u16), Write(u16, u16),
    /// a read without I/O effects (MemAccessCtx::omnipotent): still answered by the register or device at the port
    Peek(u16) }

/// The model: devices by id (tag of the recorder or None for null), port owner table, internal-register map.
struct Model { devices: Vec<Option<u16>>, owner: BTreeMap<u16, u16>, ireg: BTreeMap<u16, u8>, pc: u16, saved_sp: u16, mcr: bool }
impl Model {
    fn new() -> Model {
        let mut owner = BTreeMap::new();
        for p in [0xFE00u16, 0xFE02] { owner.insert(p, 1); }
        for p in [0xFE04u16, 0xFE06] { owner.insert(p, 2); }
        Model { devices: vec![None, None, None], owner, ireg: BTreeMap::from([(0xFFFC, 9), (0xFFFE, 8)]), pc: 0x3000, saved_sp: 0x3000, mcr: false }
    }
    fn owned(&self, p: u16) -> bool { self.owner.get(&p).copied().unwrap_or(0) != 0 }
}
const REG_PC: u8 = 0; const REG_SSP: u8 = 1;

struct Sys { sim: Simulator, recs: BTreeMap<u16, Recorder> }

/// Executes one op on both; returns Err(signature, detail) on disagreement.
fn apply(sys: &mut Sys, m: &mut Model, op: &Op) -> Result<(), (String, String)> {
    let drain = |sys: &Sys| -> Vec<(u16, char, u16, u16)> { let mut v = vec![]; for (t, r) in &sys.recs { for (k, a, d) in r.take() { v.push((*t, k, a, d)); } } v };
    let _ = drain(sys);
    match op {
        Op::Add(tag, ports) => {
            let got = if *tag == 0 { sys.sim.device_handler.add_device(NullDevice, ports).ok() } else { let r = sys.recs.entry(*tag).or_insert_with(|| Recorder::new(*tag)).clone(); sys.sim.device_handler.add_device(r, ports).ok() };
            let ok = ports.iter().all(|p| *p >= 0xFE00 && !m.owned(*p));
            let want = if ok { let id = m.devices.len() as u16; m.devices.push(if *tag == 0 { None } else { Some(*tag) }); for p in ports { m.owner.insert(*p, id); } Some(id) } else { None };
            if got != want { return Err((format!("add_device:{}", if want.is_some() { "refused-but-should-succeed" } else if got.is_some() { "succeeded-but-should-be-refused" } else { "wrong-id" }), format!("add_device(ports {ports:04X?}) = {got:?}, model {want:?}"))); }
        }
        Op::Remove(id) => {
            sys.sim.device_handler.remove_device(*id);
            if (*id as usize) < m.devices.len() { m.devices[*id as usize] = None; if *id > 2 { for (_, o) in m.owner.iter_mut() { if *o == *id { *o = 0; } } } }
        }
        Op::SetKbd(t) => { match t { Some(tag) => { let r = sys.recs.entry(*tag).or_insert_with(|| Recorder::new(*tag)).clone(); sys.sim.device_handler.set_keyboard(r); } None => sys.sim.device_handler.set_keyboard(NullDevice) } m.devices[1] = *t; }
        Op::SetDisp(t) => { match t { Some(tag) => { let r = sys.recs.entry(*tag).or_insert_with(|| Recorder::new(*tag)).clone(); sys.sim.device_handler.set_display(r); } None => sys.sim.device_handler.set_display(NullDevice) } m.devices[2] = *t; }
        Op::Mmap(p, r) => {
            let got = sys.sim.mmap_internal(*p, if *r == REG_PC { InternalRegister::PC } else { InternalRegister::SavedSP }).is_ok();
            let want = *p >= 0xFE00 && !m.ireg.contains_key(p);
            if want { m.ireg.insert(*p, *r); }
            if got != want { return Err(("mmap_internal".into(), format!("mmap_internal(x{p:04X}) ok = {got}, model {want}"))); }
        }
        Op::Munmap(p) => { let got = sys.sim.munmap_internal(*p); let want = m.ireg.remove(p).is_some(); if got != want { return Err(("munmap_internal".into(), format!("munmap_internal(x{p:04X}) = {got}, model {want}"))); } }
        Op::Read(p) => {
            let before = sys.sim.mem[*p].get();
            let got = sys.sim.read_mem(*p, priv_ctx()).map(|w| w.get()).ok();
            let log = drain(sys);
            let (want, want_log): (u16, Vec<(u16, char, u16, u16)>) = if *p < 0xFE00 { (before, vec![]) } else if let Some(r) = m.ireg.get(p) { (match *r { REG_PC => m.pc, REG_SSP => m.saved_sp, 8 => (m.mcr as u16) << 15, _ => sys.sim.psr().get() }, vec![]) }
                else { let o = m.owner.get(p).copied().unwrap_or(0); match m.devices.get(o as usize).copied().flatten() { Some(tag) if o != 0 => (0x1200 | tag, vec![(tag, 'R', *p, 0)]), _ => (before, vec![]) } };
            if got != Some(want) { return Err(("read-value".into(), format!("read(x{p:04X}) = {got:04X?}, model x{want:04X}"))); }
            if log != want_log { return Err((if want_log.is_empty() { "read-reached-a-device-it-should-not".into() } else { "read-missed-its-device".into() }, format!("read(x{p:04X}): device log {log:?}, model {want_log:?}"))); }
            if sys.sim.mem[*p].get() != want { return Err(("read-mirror".into(), format!("mem[x{p:04X}] = x{:04X} after the read, model x{want:04X}", sys.sim.mem[*p].get()))); }
        }
        Op::Peek(p) => {
            let before = sys.sim.mem[*p].get();
            let got = sys.sim.read_mem(*p, lc3_ensemble::sim::MemAccessCtx::omnipotent()).map(|w| w.get()).ok();
            let log = drain(sys);
            let (want, want_log): (u16, Vec<(u16, char, u16, u16)>) = if *p < 0xFE00 { (before, vec![]) } else if let Some(r) = m.ireg.get(p) { (match *r { REG_PC => m.pc, REG_SSP => m.saved_sp, 8 => (m.mcr as u16) << 15, _ => sys.sim.psr().get() }, vec![]) }
                else { let o = m.owner.get(p).copied().unwrap_or(0); match m.devices.get(o as usize).copied().flatten() { Some(tag) if o != 0 => (0x1200 | tag, vec![(tag, 'r', *p, 0)]), _ => (before, vec![]) } };
            if got != Some(want) { return Err(("peek-value".into(), format!("effect-free read(x{p:04X}) = {got:04X?}, model x{want:04X}"))); }
            if log != want_log { return Err((if want_log.is_empty() { "peek-reached-a-device-it-should-not".into() } else { "peek-missed-its-device-or-was-effectful".into() }, format!("effect-free read(x{p:04X}): device log {log:?}, model {want_log:?}"))); }
        }
        Op::Write(p, v) => {
            let before = sys.sim.mem[*p].get();
            let _ = sys.sim.write_mem(*p, Word::new_init(*v), priv_ctx());
            let log = drain(sys);
            let (want_mem, want_log): (u16, Vec<(u16, char, u16, u16)>) = if *p < 0xFE00 { (*v, vec![]) } else if let Some(r) = m.ireg.get(p).copied() { match r { REG_PC => m.pc = *v, REG_SSP => m.saved_sp = *v, 8 => m.mcr = *v & 0x8000 != 0, _ => {} } (*v, vec![]) }
                else { let o = m.owner.get(p).copied().unwrap_or(0); match m.devices.get(o as usize).copied().flatten() { Some(tag) if o != 0 => (*v, vec![(tag, 'W', *p, *v)]), _ => (before, vec![]) } };
            if log != want_log { return Err((if want_log.is_empty() { "write-reached-a-device-it-should-not".into() } else { "write-missed-its-device".into() }, format!("write(x{p:04X}, x{v:04X}): device log {log:?}, model {want_log:?}"))); }
            if sys.sim.mem[*p].get() != want_mem { return Err((if want_log.is_empty() && !m.ireg.contains_key(p) && *p >= 0xFE00 { "unowned-write-changed-memory".into() } else { "write-mirror".into() }, format!("mem[x{p:04X}] = x{:04X} after write of x{v:04X}, model x{want_mem:04X}", sys.sim.mem[*p].get()))); }
            if m.ireg.get(p) == Some(&REG_PC) && sys.sim.pc != *v { return Err(("internal-register-not-written".into(), format!("PC = x{:04X} after writing x{v:04X} to its port", sys.sim.pc))); }
        }
    }
    Ok(())
}

fn new_sys() -> Sys { Sys { sim: Simulator::new(SimFlags { machine_init: MachineInitStrategy::Known { value: 0 }, ..Default::default() }), recs: BTreeMap::new() } }

fn alphabet() -> Vec<Op> {
    let mut v = vec![];
    for (tag, ports) in [(1u16, vec![]), (1, vec![0xFE10u16]), (2, vec![0xFE10, 0xFE11]), (2, vec![0xFE11]), (3, vec![0xFE06]), (3, vec![0xFE10, 0x3000]), (1, vec![0xFFFC]), (3, vec![0xFFF0]), (2, vec![0xFFFF]), (0, vec![0xFE10]), (0, vec![0xFE12])] { v.push(Op::Add(tag, ports)); }
    for id in 0..6 { v.push(Op::Remove(id)); }
    v.push(Op::SetKbd(Some(4))); v.push(Op::SetKbd(None)); v.push(Op::SetDisp(Some(5)));
    for p in [0xFE10u16, 0xFE00, 0xFFF0, 0x3000] { v.push(Op::Mmap(p, REG_SSP)); }
    v.push(Op::Mmap(0xFE11, REG_PC));
    for p in [0xFE10u16, 0xFFFC, 0xFFF0] { v.push(Op::Munmap(p)); }
    v
}
const PROBE_PORTS: [u16; 8] = [0xFE00, 0xFE06, 0xFE10, 0xFE11, 0xFFFC, 0xFFF0, 0xFFFF, 0x3000];

fn run_history(ctx: &mut Ctx, ops: &[Op], probe: bool) -> bool {
    let mut sys = new_sys(); let mut m = Model::new();
    let case = |k: usize| Json::obj().set("history", Json::Arr(ops.iter().map(|o| Json::from(format!("{o:?}"))).collect())).set("failed_at", k);
    for (k, op) in ops.iter().enumerate() {
        let r = crate::monitor::guard(|| apply(&mut sys, &mut m, op));
        match r { Ok(Ok(())) => {}, Ok(Err((sig, d))) => { ctx.violation(&format!("mmio:{sig}"), format!("op {k} {op:?}: {d}"), case(k)); return false; } Err(p) => { ctx.violation(&format!("panic:{}", p.sig()), format!("op {k} {op:?} panicked: {}", p.msg), case(k)); return false; } }
    }
    if probe {
        for p in PROBE_PORTS {
            for op in [Op::Read(p), Op::Peek(p), Op::Write(p, 0x5A00 | (p & 0xFF)), Op::Read(p), Op::Peek(p)] {
                if p == 0xFFFC && matches!(op, Op::Write(..)) { continue; } // do not rewrite the PSR through its default port
                match crate::monitor::guard(|| apply(&mut sys, &mut m, &op)) { Ok(Ok(())) => {}, Ok(Err((sig, d))) => { ctx.violation(&format!("mmio:{sig}"), format!("probe {op:?} after the history: {d}"), case(ops.len())); return false; } Err(pi) => { ctx.violation(&format!("panic:{}", pi.sig()), pi.msg, case(ops.len())); return false; } }
            }
        }
    }
    true
}

fn run(ctx: &mut Ctx) {
    // phase 0: bounded exhaustive
    let alpha = alphabet();
    let depth = ctx.tier.pick_exact(4, 5) as u32;
    let n = alpha.len() as u64;
    let mut total = 0u64; for d in 0..=depth { total += n.pow(d); }
    let range = ctx.my_slice(total);
    for idx in range {
        ctx.cur = (0, idx);
        // decode idx into a sequence: lengths 0..=depth
        let mut rem = idx; let mut len = 0u32;
        while rem >= n.pow(len) { rem -= n.pow(len); len += 1; }
        let mut ops = vec![]; for _ in 0..len { ops.push(alpha[(rem % n) as usize].clone()); rem /= n; }
        ctx.eval(); ctx.nontrivial_enum(1);
        if !run_history(ctx, &ops, true) { return; }
        ctx.count(&format!("exhaustive.depth-{len}"));
    }
    // phase 1: random
    let k = ctx.tier.pick(4_000, 400_000);
    ctx.cases(1, k, |ctx, rng, _| {
        let len = 1 + rng.usize(60);
        let mut ops = vec![];
        let port = |rng: &mut Rng| -> u16 { match rng.below(9) { 0 => 0x3000 + rng.below(16) as u16, 1 => 0xFDFF, 2 => *rng.pick(&[0xFFFFu16, 0xFFFE, 0xFFFD, 0xFE00, 0xFFFA]), _ => 0xFE00 + rng.below(0x40) as u16 * if rng.bool() { 1 } else { 8 } } };
        let mut next_id = 3u16;
        for _ in 0..len {
            let op = match rng.below(12) {
                0..=2 => { let np = rng.usize(4); next_id += 1; Op::Add(if rng.chance(1, 5) { 0 } else { 10 + next_id }, (0..np).map(|_| port(rng)).collect()) }
                3 => Op::Remove(rng.below(next_id as u64 + 2) as u16),
                4 => if rng.bool() { Op::SetKbd(if rng.bool() { Some(4) } else { None }) } else { Op::SetDisp(if rng.bool() { Some(5) } else { None }) },
                5 => Op::Mmap(port(rng), rng.below(2) as u8),
                6 => Op::Munmap(port(rng)),
                7..=9 => if rng.chance(1, 3) { Op::Peek(port(rng)) } else { Op::Read(port(rng)) },
                _ => { let p = port(rng); Op::Write(if p == 0xFFFC { 0xFFFA } else { p }, rng.u16()) }
            };
            ops.push(op);
        }
        ctx.eval(); ctx.nontrivial(crate::rng::hash_bytes(format!("{ops:?}").as_bytes()));
        if run_history(ctx, &ops, false) { ctx.count("random.histories"); for o in &ops { ctx.count(&format!("ops.{}", format!("{o:?}").split('(').next().unwrap())); } }
        if ctx.want_sample() { let mut v: Vec<Json> = ops.iter().take(14).map(|o| Json::from(format!("{o:?}"))).collect(); if ops.len() > 14 { v.push(Json::from(format!("... ({} operations in all)", ops.len()))); } ctx.sample(Json::Arr(v)); }
    });
}

fn guard(m: &Merged, t: Tier) -> Vec<String> {
    let mut out = vec![];
    for d in 0..=t.pick_exact(4, 5) { need(m, &mut out, &format!("exhaustive.depth-{d}"), 1); }
    for o in ["Add", "Remove", "SetKbd", "SetDisp", "Mmap", "Munmap", "Read", "Write"] { need(m, &mut out, &format!("ops.{o}"), 100); }
    out
}

//! C34 Timer interrupts follow the configured interval.
use super::*;
use crate::json::Json;
use lc3_ensemble::sim::device::{ExternalDevice, TimerDevice};
use lc3_ensemble::sim::mem::{MachineInitStrategy, Word};
use lc3_ensemble::sim::{SimFlags, Simulator};

pub fn prop() -> Prop {
    Prop {
        id: "C34", title: "Timer interrupts follow the configured interval", level: "exploration",
        rule: "Phase 0: TimerDevices with exact counts n in 1..=1000 and ranges a..=b / a..b (1 <= a), random seeds, vectors and priorities are polled directly 2000-10000 times with random enable/disable toggles, io_reset and reset_remaining calls. Monitor over the poll history: \
               (i) the number of polls strictly between two consecutive interrupts (with no toggle/reset in between) lies in the range (= n for an exact count); (ii) after enabling, io_reset or reset_remaining the first interrupt comes within max+1 enabled polls; \
               (iii) no interrupt while disabled; (iv) two timers with the same seed and operation sequence produce identical fire sequences, vector and priority as configured (priority clamped to 7). \
               Phase 1: the same timer inside a Simulator running an endless loop, one poll per step, interrupt entries detected from the machine state (instructions_run unchanged, frame depth +1, PC = handler); the gaps between entries, measured in steps outside the handler plus one, must satisfy (i). \
               Ranges containing 0 are outside the domain. Non-trivial = timer that fired at least 3 times; distinct = (seed, range, operations).",
        assumptions: &["a 'poll' is one call of poll_interrupt on an enabled timer", "ranges containing 0 are out of domain"],
        run, guard,
        level_text: "Runtime trace checking of the timer's poll/fire history against the interval specification, directly and inside the simulator, over thousands (quick) to hundreds of thousands (thorough) of configurations.",
        level_note: "Sampled configurations; poll sequences of bounded length.",
        technique: "online trace-specification monitor over recorded poll/interrupt events",
        ..Prop::base("C34", "")
    }
}

fn run(ctx: &mut Ctx) {
    let n = ctx.tier.pick(3_000, 300_000);
    ctx.cases(0, n, |ctx, rng, _| {
        let seed = rng.next();
        let (lo, hi, incl, exact): (u32, u32, bool, bool) = match rng.below(4) { 0 => { let cap = if rng.bool() { 8 } else { 1000 }; let v = 1 + rng.below(cap) as u32; (v, v, true, true) } 1 => { let a = 1 + rng.below(50) as u32; (a, a + rng.below(60) as u32, true, false) } 2 => { let a = 1 + rng.below(50) as u32; (a, a + 1 + rng.below(60) as u32, false, false) } _ => (1, 1 + rng.below(3) as u32, true, false) };
        let max = if incl { hi } else { hi - 1 };
        let (vect, prio) = (rng.next() as u8, rng.below(12) as u8);
        let mk = || { if exact && rng_free_bool(seed) { let mut t = TimerDevice::new(Some(seed), 5..=9, vect, prio); t.set_exact(lo); t.reset_remaining(); t } else if incl { TimerDevice::new(Some(seed), lo..=hi, vect, prio) } else { TimerDevice::new(Some(seed), lo..hi, vect, prio) } };
        let (mut t, mut u) = (mk(), mk());
        let polls = 2000 + rng.usize(8000);
        ctx.eval();
        let case = |hist: &Vec<String>| Json::obj().set("seed", seed).set("range", format!("{lo}..{}{hi}", if incl { "=" } else { "" })).set("vector", vect as u64).set("priority", prio as u64).set("recent_events", Json::Arr(hist.iter().rev().take(12).rev().map(|h| Json::from(h.as_str())).collect()));
        let mut hist: Vec<String> = vec![];
        let mut since_fire: Option<u64> = None;   // enabled polls since the last fire (None: no clean reference point)
        let mut since_arm: Option<u64> = None;    // enabled polls since enable/reset
        let mut fires = 0u64;
        let mut enabled = false;
        for i in 0..polls {
            // occasional operations
            match rng.below(if enabled { 400 } else { 6 }) {
                0 => { enabled = !enabled; t.enabled = enabled; u.enabled = enabled; since_fire = None; since_arm = if enabled { Some(0) } else { None }; hist.push(format!("poll {i}: enabled = {enabled}")); }
                1 if enabled => { if rng.bool() { t.io_reset(); u.io_reset(); hist.push(format!("poll {i}: io_reset")); } else { t.reset_remaining(); u.reset_remaining(); hist.push(format!("poll {i}: reset_remaining")); } since_fire = None; since_arm = Some(0); }
                _ => {}
            }
            let Some((a, b)) = ctx.no_panic("poll_interrupt", || case(&hist), || (t.poll_interrupt(), u.poll_interrupt())) else { return };
            if a.is_some() != b.is_some() { ctx.violation("same-seed-different-sequence", format!("poll {i}: one timer fired, its twin did not"), case(&hist)); return; }
            if !enabled { if a.is_some() { ctx.violation("fires-while-disabled", format!("poll {i}: interrupt from a disabled timer"), case(&hist)); return; } continue; }
            match a {
                Some(int) => {
                    hist.push(format!("poll {i}: fire"));
                    if int.priority() != Some(prio.min(7)) { ctx.violation("wrong-priority", format!("priority {:?}, configured {prio}", int.priority()), case(&hist)); return; }
                    if let Some(g) = since_fire { if g < lo as u64 || g > max as u64 { ctx.violation(if exact { "gap-not-exact" } else if g < lo as u64 { "gap-below-range" } else { "gap-above-range" }, format!("{g} polls between consecutive interrupts, range {lo}..={max}"), case(&hist)); return; } ctx.count(if g == lo as u64 { "gaps.at-min" } else if g == max as u64 { "gaps.at-max" } else { "gaps.inside" }); }
                    if let Some(w) = since_arm { if w > max as u64 { ctx.violation("first-interrupt-too-late", format!("first interrupt {} polls after enable/reset, maximum {}", w + 1, max + 1), case(&hist)); return; } ctx.count("first-fire-after-arm"); }
                    since_fire = Some(0); since_arm = None; fires += 1;
                }
                None => {
                    if let Some(g) = since_fire.as_mut() { *g += 1; if *g > max as u64 { ctx.violation("gap-above-range", format!("no interrupt for {g} polls after the previous one, range maximum {max}"), case(&hist)); return; } }
                    if let Some(w) = since_arm.as_mut() { *w += 1; if *w > max as u64 + 1 { ctx.violation("first-interrupt-too-late", format!("no interrupt within {w} polls after enable/reset, maximum {}", max + 1), case(&hist)); return; } }
                }
            }
        }
        if fires >= 3 { ctx.nontrivial(crate::rng::hash64(&[seed, lo as u64, hi as u64, polls as u64])); }
        ctx.count(if exact { "timers.exact" } else if incl { "timers.inclusive-range" } else { "timers.exclusive-range" });
        ctx.count_n("fires", fires);
        if ctx.want_sample() && fires > 3 && hist.len() > 6 { ctx.sample(case(&hist).set("fires", fires).set("polls", polls)); }
    });
    // phase 1: inside the simulator
    let n = ctx.tier.pick(300, 30_000);
    ctx.cases(1, n, |ctx, rng, _| {
        let (lo, hi) = { let a = 1 + rng.below(40) as u32; (a, a + rng.below(20) as u32) };
        let seed = rng.next(); let prio = 1 + rng.below(7) as u8; let vect = 0x10 + rng.below(0xE0) as u8;
        let mut sim = Simulator::new(SimFlags { machine_init: MachineInitStrategy::Known { value: 0 }, ..Default::default() });
        // endless user loop at x3000; handler = single RTI at x1000
        for (a, w) in [(0x3000u16, 0x1021u16), (0x3001, 0x0FFE), (0x1000, 0x8000)] { sim.mem[a] = Word::new_init(w); }
        sim.mem[0x100 + vect as u16] = Word::new_init(0x1000);
        let mut t = TimerDevice::new(Some(seed), lo..=hi, vect, prio); t.enabled = true;
        if sim.device_handler.add_device(t, &[]).is_err() { return; }
        ctx.eval();
        let case = || Json::obj().set("seed", seed).set("range", format!("{lo}..={hi}")).set("priority", prio as u64);
        let mut last_entry: Option<u64> = None; let mut entries = 0u64;
        for step in 0..3000u64 {
            let (i0, d0) = (sim.instructions_run, sim.frame_stack.len());
            if sim.step_in().is_err() { ctx.count("sim-error"); return; }
            let entry = sim.instructions_run == i0 && sim.frame_stack.len() == d0 + 1 && sim.pc == 0x1000;
            if entry {
                entries += 1;
                if let Some(l) = last_entry {
                    // polls strictly between the two fires = steps strictly between the two entry steps
                    let g = step - l - 1;
                    // the RTI step inside the handler is polled at priority p: a fire there would be gated and lost, so a gap may also be a sum of gaps;
                    // only check the lower bound and the exact case when the handler (1 step) cannot hide a fire: gap >= lo always holds
                    if g < lo as u64 { ctx.violation("sim:gap-below-range", format!("{g} steps between timer entries, range {lo}..={hi}"), case()); return; }
                    if g <= hi as u64 { ctx.count("sim.gaps-in-range"); } else { ctx.count("sim.gaps-with-gated-fire"); }
                } else if step > hi as u64 { ctx.violation("sim:first-interrupt-too-late", format!("first timer entry at step {step}, maximum {hi}"), case()); return; }
                last_entry = Some(step);
            }
        }
        if entries >= 3 { ctx.nontrivial(crate::rng::hash64(&[seed, lo as u64, hi as u64, 7])); ctx.count("sim.timers"); }
    });
}
fn rng_free_bool(seed: u64) -> bool { seed & 1 == 1 }

fn guard(m: &Merged, _t: Tier) -> Vec<String> {
    let mut out = vec![];
    for k in ["timers.exact", "timers.inclusive-range", "timers.exclusive-range", "gaps.at-min", "gaps.at-max", "gaps.inside", "first-fire-after-arm", "sim.timers", "sim.gaps-in-range"] { need(m, &mut out, k, 20); }
    need(m, &mut out, "fires", 10_000);
    out
}

//! C34 Timer interrupts follow the configured interval.
use super::*;
use crate::json::Json;
use lc3_ensemble::sim::device::{ExternalDevice, Interrupt, InterruptFromFn, TimerDevice};
use std::sync::{Arc, Mutex};

/// A timer wrapped so that every poll and its answer are recorded (the monitor's event log).
struct Probe<D: ExternalDevice> { inner: D, log: Arc<Mutex<Vec<bool>>> }
impl<D: ExternalDevice> ExternalDevice for Probe<D> {
    fn io_read(&mut self, a: u16, e: bool) -> Option<u16> { self.inner.io_read(a, e) }
    fn io_write(&mut self, a: u16, d: u16) -> bool { self.inner.io_write(a, d) }
    fn io_reset(&mut self) { self.inner.io_reset() }
    fn poll_interrupt(&mut self) -> Option<Interrupt> { let r = self.inner.poll_interrupt(); self.log.lock().unwrap().push(r.is_some()); r }
}
use lc3_ensemble::sim::mem::{MachineInitStrategy, Word};
use lc3_ensemble::sim::{SimFlags, Simulator};

pub fn prop() -> Prop {
    Prop {
        id: "C34", title: "Timer interrupts follow the configured interval", level: "exploration",
        rule: "Phase 0: TimerDevices with exact counts n in 1..=1000 and ranges a..=b / a..b / (Excluded(a-1), Included(b)) / a.. (1 <= a; for a.. only the minimum is checked), random seeds, vectors and priorities are polled directly 2000-10000 times with random enable/disable toggles, io_reset and reset_remaining calls. Monitor over the poll history: \
               (i) the number of polls strictly between two consecutive interrupts (with no reset in between) lies in the range; across a disable/enable pause the gap is accepted if either the enabled polls or all polls lie in the range (= n for an exact count); (ii) after enabling, io_reset or reset_remaining the first interrupt comes within max+1 enabled polls; \
               (iii) no interrupt while disabled; (iv) two timers with the same seed and operation sequence produce identical fire sequences, vector and priority as configured (priority clamped to 7). \
               Phase 1: the same timer wrapped in a recording device inside a Simulator running an endless loop, with (in half of the cases) an earlier-registered device that raises external interrupts: the timer must be polled exactly once per step (also on steps aborted by an external interrupt), and the recorded poll/fire log must satisfy (i) and (ii); interrupt entries are counted from the machine state. \
               Phase 2: the timer shared through Arc<Mutex<_>> or Arc<RwLock<_>> (the library's ExternalDevice impls for both), enabled by a controller thread that in half of the cases dies holding the guard (lock poisoned but free): polled directly or inside a Simulator, it must fire and satisfy (i) and (ii). \
               Ranges containing 0 are outside the domain (the statement restricts exact counts to n >= 1; a sampled 0 means 'resample at the next poll'). Non-trivial = timer that fired at least 3 times; distinct = (seed, range, operations).",
        assumptions: &["a 'poll' is one call of poll_interrupt on an enabled timer", "ranges containing 0 are out of domain"],
        run, guard,
        level_text: "Runtime trace checking of the timer's poll/fire history against the interval specification, directly and inside the simulator, over thousands (quick) to hundreds of thousands (thorough) of configurations.",
        level_note: "Sampled configurations; poll sequences of bounded length.",
        technique: "online trace-specification monitor over recorded poll/interrupt events",
        ..Prop::base("C34", "")
    }
}

fn run(ctx: &mut Ctx) {
    let n = ctx.tier.pick(3_000, 300_000);
    ctx.cases(0, n, |ctx, rng, _| {
        let seed = match rng.below(10) { 0 => 0, 1 => u64::MAX, 2 => 1, _ => rng.next() }; // edge seeds included: a seed is a seed
        // form: 0 exact count, 1 inclusive range, 2 half-open range, 3 tiny inclusive range, 4 range with an excluded start bound,
        // 5 range without an upper bound (a minimum only)
        let form = rng.below(6);
        let (lo, hi, incl, exact): (u32, u32, bool, bool) = match form { 0 => { let cap = if rng.bool() { 8 } else { 1000 }; let v = 1 + rng.below(cap) as u32; (v, v, true, true) } 1 => { let a = 1 + rng.below(50) as u32; (a, a + rng.below(60) as u32, true, false) } 2 => { let a = 1 + rng.below(50) as u32; (a, a + 1 + rng.below(60) as u32, false, false) } 3 => (1, 1 + rng.below(3) as u32, true, false),
            4 => { let a = 1 + rng.below(50) as u32; (a, a + rng.below(60) as u32, true, false) } _ => (1 + rng.below(40) as u32, u32::MAX, true, false) };
        let max = if incl { hi } else { hi - 1 };
        let (vect, prio) = (rng.next() as u8, rng.below(12) as u8);
        let mk = || { use std::ops::Bound; if exact && rng_free_bool(seed) { let mut t = TimerDevice::new(Some(seed), 5..=9, vect, prio); t.set_exact(lo); t.reset_remaining(); t } else if form == 4 { TimerDevice::new(Some(seed), (Bound::Excluded(lo - 1), Bound::Included(hi)), vect, prio) } else if form == 5 { let mut t = TimerDevice::new(Some(seed), 2..=3, vect, prio); t.set_range(lo..); t.reset_remaining(); t } else if incl { TimerDevice::new(Some(seed), lo..=hi, vect, prio) } else { TimerDevice::new(Some(seed), lo..hi, vect, prio) } };
        let (mut t, mut u) = (mk(), mk());
        let polls = 2000 + rng.usize(8000);
        ctx.eval();
        let case = |hist: &Vec<String>| Json::obj().set("seed", seed).set("range", format!("{lo}..{}{hi}", if incl { "=" } else { "" })).set("vector", vect as u64).set("priority", prio as u64).set("recent_events", Json::Arr(hist.iter().rev().take(12).rev().map(|h| Json::from(h.as_str())).collect()));
        let mut hist: Vec<String> = vec![];
        let mut since_fire: Option<u64> = None;   // enabled polls since the last fire (None: no clean reference point)
        let mut since_fire_all: u64 = 0;          // all polls since the last fire, including those made while disabled
        let mut paused = false;                   // was the timer disabled at some point since the last fire?
        let mut since_arm: Option<u64> = None;    // enabled polls since enable/reset
        let mut fires = 0u64;
        let mut enabled = false;
        for i in 0..polls {
            // occasional operations
            match rng.below(if enabled { 400 } else { 6 }) {
                0 => { enabled = !enabled; t.enabled = enabled; u.enabled = enabled; /* across a pause the gap is accepted if either the enabled polls or all polls lie in the range (the statement does not say whether a disabled timer keeps counting) */ paused = true; since_arm = if enabled { Some(0) } else { None }; if !enabled && since_fire == Some(0) { ctx.count("pauses.right-after-an-interrupt"); } hist.push(format!("poll {i}: enabled = {enabled}")); }
                1 if enabled => { if rng.bool() { t.io_reset(); u.io_reset(); hist.push(format!("poll {i}: io_reset")); } else { t.reset_remaining(); u.reset_remaining(); hist.push(format!("poll {i}: reset_remaining")); } since_fire = None; since_arm = Some(0); }
                _ => {}
            }
            let Some((a, b)) = ctx.no_panic("poll_interrupt", || case(&hist), || (t.poll_interrupt(), u.poll_interrupt())) else { return };
            if a.is_some() != b.is_some() { ctx.violation("same-seed-different-sequence", format!("poll {i}: one timer fired, its twin did not"), case(&hist)); return; }
            since_fire_all += 1;
            if !enabled { if a.is_some() { ctx.violation("fires-while-disabled", format!("poll {i}: interrupt from a disabled timer"), case(&hist)); return; } continue; }
            match a {
                Some(int) => {
                    hist.push(format!("poll {i}: fire"));
                    if int.priority() != Some(prio.min(7)) { ctx.violation("wrong-priority", format!("priority {:?}, configured {prio}", int.priority()), case(&hist)); return; }
                    let g_all = since_fire_all - 1;
                    if let Some(g) = since_fire { if (g < lo as u64 || g > max as u64) && !(paused && g_all >= lo as u64 && g_all <= max as u64) { ctx.violation(if exact { "gap-not-exact" } else if g < lo as u64 { "gap-below-range" } else { "gap-above-range" }, format!("{g} polls between consecutive interrupts, range {lo}..={max}"), case(&hist)); return; } ctx.count(if g == lo as u64 { "gaps.at-min" } else if g == max as u64 { "gaps.at-max" } else { "gaps.inside" }); }
                    if let Some(w) = since_arm { if w > max as u64 { ctx.violation("first-interrupt-too-late", format!("first interrupt {} polls after enable/reset, maximum {}", w + 1, max + 1), case(&hist)); return; } ctx.count("first-fire-after-arm"); }
                    since_fire = Some(0); since_arm = None; fires += 1; since_fire_all = 0; paused = false;
                }
                None => {
                    if let Some(g) = since_fire.as_mut() { *g += 1; if *g > max as u64 { ctx.violation("gap-above-range", format!("no interrupt for {g} polls after the previous one, range maximum {max}"), case(&hist)); return; } }
                    if let Some(w) = since_arm.as_mut() { *w += 1; if *w > max as u64 + 1 { ctx.violation("first-interrupt-too-late", format!("no interrupt within {w} polls after enable/reset, maximum {}", max + 1), case(&hist)); return; } }
                }
            }
        }
        if fires >= 3 { ctx.nontrivial(crate::rng::hash64(&[seed, lo as u64, hi as u64, polls as u64])); }
        ctx.count(if exact { "timers.exact" } else if form == 4 { "timers.excluded-start-bound" } else if form == 5 { "timers.no-upper-bound" } else if incl { "timers.inclusive-range" } else { "timers.exclusive-range" });
        ctx.count_n("fires", fires);
        if seed == 0 && !exact && fires >= 3 { ctx.count("timers.seed-0-with-a-range"); }
        if ctx.want_sample() && fires > 3 && hist.len() > 6 { ctx.sample(case(&hist).set("fires", fires).set("polls", polls)); }
    });
    // phase 1: inside the simulator
    let n = ctx.tier.pick(300, 30_000);
    ctx.cases(1, n, |ctx, rng, _| {
        let (lo, hi) = { let a = 1 + rng.below(40) as u32; (a, a + rng.below(20) as u32) };
        let seed = rng.next(); let prio = 1 + rng.below(7) as u8; let vect = 0x10 + rng.below(0xE0) as u8;
        let mut sim = Simulator::new(SimFlags { machine_init: MachineInitStrategy::Known { value: 0 }, ..Default::default() });
        // endless user loop at x3000; handler = single RTI at x1000
        for (a, w) in [(0x3000u16, 0x1021u16), (0x3001, 0x0FFE), (0x1000, 0x8000)] { sim.mem[a] = Word::new_init(w); }
        sim.mem[0x100 + vect as u16] = Word::new_init(0x1000);
        // an earlier-registered device that sometimes raises an external (host-side) interrupt: the step is aborted with
        // Err(Interrupt), but every device must still have been polled exactly once in that step
        let ext_rate = *rng.pick(&[0u64, 0, 7, 23]);
        if ext_rate > 0 { let mut r2 = crate::rng::Rng::new(seed ^ 0x55); let _ = sim.device_handler.add_device(InterruptFromFn::new(move || if r2.chance(1, ext_rate) { Some(Interrupt::external(std::fmt::Error)) } else { None }), &[]); }
        let mut t = TimerDevice::new(Some(seed), lo..=hi, vect, prio); t.enabled = true;
        let log: Arc<Mutex<Vec<bool>>> = Arc::new(Mutex::new(vec![]));
        if sim.device_handler.add_device(Probe { inner: t, log: log.clone() }, &[]).is_err() { return; }
        ctx.eval();
        let case = || Json::obj().set("seed", seed).set("range", format!("{lo}..={hi}")).set("priority", prio as u64);
        let mut entries = 0u64; let mut ext = 0u64;
        for step in 0..3000u64 {
            let (i0, d0) = (sim.instructions_run, sim.frame_stack.len());
            let r = sim.step_in();
            match &r { Err(lc3_ensemble::sim::SimErr::Interrupt(_)) => { ext += 1; } Err(_) => { ctx.count("sim-error"); return; } Ok(()) => {} }
            let polls = log.lock().unwrap().len() as u64;
            if polls != step + 1 { ctx.violation("sim:timer-not-polled-once-per-step", format!("after {} steps the timer has been polled {polls} times (last step ended with {:?})", step + 1, r.as_ref().map_err(|e| crate::simutil::err_kind(e))), case().set("external_interrupt_rate", ext_rate)); return; }
            if r.is_ok() && sim.instructions_run == i0 && sim.frame_stack.len() == d0 + 1 && sim.pc == 0x1000 { entries += 1; }
        }
        // the interval specification over the recorded poll log
        let l = log.lock().unwrap().clone();
        let fires: Vec<usize> = l.iter().enumerate().filter(|(_, f)| **f).map(|(i, _)| i).collect();
        if let Some(f0) = fires.first() { if *f0 as u64 + 1 > hi as u64 { ctx.violation("sim:first-interrupt-too-late", format!("first timer interrupt at poll {}, maximum {hi}", f0 + 1), case()); return; } }
        for w in fires.windows(2) { let g = (w[1] - w[0] - 1) as u64; if g < lo as u64 || g > hi as u64 { ctx.violation(if g < lo as u64 { "sim:gap-below-range" } else { "sim:gap-above-range" }, format!("{g} polls between consecutive timer interrupts inside the simulator, range {lo}..={hi}"), case()); return; } ctx.count("sim.gaps-in-range"); }
        if ext > 0 { ctx.count("sim.timers-with-external-interrupt-source"); ctx.count_n("sim.steps-aborted-by-external-interrupt", ext); }
        if entries >= 3 { ctx.nontrivial(crate::rng::hash64(&[seed, lo as u64, hi as u64, 7])); ctx.count("sim.timers"); }
    });
    shared(ctx);
}
fn rng_free_bool(seed: u64) -> bool { seed & 1 == 1 }

/// phase 2: the timer shared with a controller through Arc<Mutex<_>> / Arc<RwLock<_>> (the library implements ExternalDevice
/// for both). In half of the cases the controller thread enables the timer and then dies holding the guard, which poisons
/// the lock; the lock is free afterwards, so the timer must keep following its interval.
fn shared(ctx: &mut Ctx) {
    use std::sync::RwLock;
    let n = ctx.tier.pick(300, 30_000);
    ctx.cases(2, n, |ctx, rng, _| {
        let (lo, hi) = { let a = 1 + rng.below(30) as u32; (a, a + rng.below(20) as u32) };
        let seed = rng.next(); let prio = rng.below(8) as u8; let vect = rng.next() as u8;
        let rw = rng.bool(); let poison = rng.bool(); let in_sim = rng.bool();
        let t = TimerDevice::new(Some(seed), lo..=hi, vect, prio);
        let case = || Json::obj().set("seed", seed).set("range", format!("{lo}..={hi}")).set("wrapper", if rw { "Arc<RwLock<TimerDevice>>" } else { "Arc<Mutex<TimerDevice>>" }).set("lock_poisoned_by_dead_controller", poison).set("inside_simulator", in_sim);
        // the controller enables the timer through its handle (and, when `poison`, panics while still holding the guard)
        enum H { M(Arc<Mutex<TimerDevice>>), R(Arc<RwLock<TimerDevice>>) }
        let h = if rw { H::R(Arc::new(RwLock::new(t))) } else { H::M(Arc::new(Mutex::new(t))) };
        match &h {
            H::M(m) => { let m2 = m.clone(); let _ = std::thread::spawn(move || { let mut g = m2.lock().unwrap(); g.enabled = true; if poison { panic!("controller dies holding the timer lock"); } }).join(); if m.is_poisoned() != poison { ctx.count("harness.poison-setup-failed"); return; } }
            H::R(m) => { let m2 = m.clone(); let _ = std::thread::spawn(move || { let mut g = m2.write().unwrap(); g.enabled = true; if poison { panic!("controller dies holding the timer lock"); } }).join(); if m.is_poisoned() != poison { ctx.count("harness.poison-setup-failed"); return; } }
        }
        ctx.eval();
        let polls = 400 + rng.usize(600);
        let mut fires: Vec<usize> = vec![];
        if in_sim {
            let mut sim = Simulator::new(SimFlags { machine_init: MachineInitStrategy::Known { value: 0 }, ..Default::default() });
            for (a, w) in [(0x3000u16, 0x1021u16), (0x3001, 0x0FFE), (0x1000, 0x8000)] { sim.mem[a] = Word::new_init(w); }
            sim.mem[0x100 + vect as u16] = Word::new_init(0x1000);
            let log: Arc<Mutex<Vec<bool>>> = Arc::new(Mutex::new(vec![]));
            let added = match &h { H::M(m) => sim.device_handler.add_device(Probe { inner: m.clone(), log: log.clone() }, &[]).is_ok(), H::R(m) => sim.device_handler.add_device(Probe { inner: m.clone(), log: log.clone() }, &[]).is_ok() };
            if !added { return; }
            for _ in 0..polls { let Some(r) = ctx.no_panic("step_in(shared timer)", case, || sim.step_in()) else { return }; if r.is_err() { ctx.count("sim-error"); return; } }
            fires = log.lock().unwrap().iter().enumerate().filter(|(_, f)| **f).map(|(i, _)| i).collect();
        } else {
            for i in 0..polls {
                let Some(r) = ctx.no_panic("poll_interrupt(shared timer)", case, || match &h { H::M(m) => m.clone().poll_interrupt(), H::R(m) => m.clone().poll_interrupt() }) else { return };
                if r.is_some() { fires.push(i); }
            }
        }
        let tag = if poison { "poisoned" } else { "healthy" };
        match fires.first() { None => { ctx.violation(&format!("shared:never-fires:{tag}"), format!("an enabled shared timer with range {lo}..={hi} raised no interrupt in {polls} polls"), case()); return; } Some(f0) => { if *f0 as u64 + 1 > hi as u64 + 1 { ctx.violation(&format!("shared:first-interrupt-too-late:{tag}"), format!("first interrupt at poll {}, maximum {}", f0 + 1, hi + 1), case()); return; } } }
        for w in fires.windows(2) { let g = (w[1] - w[0] - 1) as u64; if g < lo as u64 || g > hi as u64 { ctx.violation(&format!("shared:gap-outside-range:{tag}"), format!("{g} polls between consecutive interrupts of a shared timer, range {lo}..={hi}"), case()); return; } }
        if fires.len() >= 3 { ctx.nontrivial(crate::rng::hash64(&[seed, lo as u64, hi as u64, 11])); ctx.count(&format!("shared.{}.{tag}", if rw { "rwlock" } else { "mutex" })); if in_sim { ctx.count("shared.inside-simulator"); } }
    });
}

fn guard(m: &Merged, _t: Tier) -> Vec<String> {
    let mut out = vec![];
    for k in ["timers.exact", "timers.inclusive-range", "timers.exclusive-range", "timers.excluded-start-bound", "timers.no-upper-bound", "pauses.right-after-an-interrupt", "timers.seed-0-with-a-range", "shared.mutex.healthy", "shared.mutex.poisoned", "shared.rwlock.healthy", "shared.rwlock.poisoned", "shared.inside-simulator", "gaps.at-min", "gaps.at-max", "gaps.inside", "first-fire-after-arm", "sim.timers", "sim.gaps-in-range", "sim.timers-with-external-interrupt-source"] { need(m, &mut out, k, 20); }
    need(m, &mut out, "fires", 10_000);
    out
}

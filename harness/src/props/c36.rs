//! C36 Printed statements reparse to the same statement.
use super::*;
use crate::gen::*;
use crate::json::Json;
use lc3_ensemble::parse::parse_ast;

pub fn prop() -> Prop {
    Prop {
        id: "C36", title: "Printed statements reparse to the same statement", level: "exploration",
        rule: "Statements are obtained by parsing rendered generated programs (string literals restricted to printable ASCII, tab, LF, CR, NUL; every opcode, alias, directive, numeric extreme, 0-3 labels); \
               each statement is printed with Display and the text parsed again; the result must be exactly one statement equal to the original with spans erased. \
               Non-trivial: every statement; distinct = distinct printed texts.",
        assumptions: &["the first parse is correct (decided by C03)"],
        run, guard,
        level_text: "Runtime round-trip monitor over hundreds of thousands of statements produced by the real parser; sampled over the statement grammar with boundary operands.",
        level_note: "Only statements the generator can write; strings limited to the character set named in the property.",
        technique: "round-trip monitoring (parse -> print -> parse)",
        ..Prop::base("C36", "")
    }
}

fn run(ctx: &mut Ctx) {
    let n = ctx.tier.pick(12_000, 800_000);
    ctx.cases(0, n, |ctx, rng, _| {
        let opts = GenOpts { ascii_strings: true, big_padding: rng.chance(1, 8), ..GenOpts::default() };
        let prog = gen_program(rng, &opts);
        let style = Style::random(rng);
        let r = render(rng, &prog.stmts, &style);
        let Ok(ast) = parse_ast(&r.text) else { ctx.count("first-parse-failed"); return };
        for st in &ast {
            ctx.eval();
            let case = || Json::obj().set("statement", format!("{st:?}"));
            let Some(text) = ctx.no_panic("Display", case, || st.to_string()) else { continue };
            ctx.nontrivial_str(&text);
            let case = || Json::obj().set("printed", text.as_str()).set("statement", format!("{:?}", from_crate(st)));
            let Some(back) = ctx.no_panic("parse_ast", case, || parse_ast(&text)) else { continue };
            let name = from_crate(st).k.name();
            match back {
                Err(e) => ctx.violation(&format!("printed-text-does-not-parse:{name}"), format!("{text:?}: {e:?}"), case()),
                Ok(v) if v.len() != 1 => ctx.violation(&format!("printed-text-parses-to-{}-statements:{name}", v.len()), format!("{text:?}"), case()),
                Ok(v) => {
                    if from_crate(&v[0]) != from_crate(st) { ctx.violation(&format!("reparse-differs:{name}"), format!("{text:?} reparses as {:?}, original {:?}", from_crate(&v[0]), from_crate(st)), case()); }
                    else { ctx.count(&format!("roundtrip.{name}")); if !st.labels.is_empty() { ctx.count(&format!("labels.{}", st.labels.len().min(3))); } }
                }
            }
            if let K::Stringz(s) = from_crate(st).k {
                for c in s.chars() { match c { '"' => ctx.count("string.quote"), '\\' => ctx.count("string.backslash"), '\n' | '\r' | '\t' | '\0' => ctx.count("string.control"), _ => {} } }
                if ctx.want_sample() && s.len() > 3 { ctx.sample(Json::obj().set("printed", text.as_str())); }
            }
        }
    });
    boundary_operands(ctx);
}

/// phase 1: single statements with every numeric operand at, next to and between its field's limits (values that valid
/// whole programs rarely contain, e.g. `.blkw x8000`): parse, print, reparse
fn boundary_operands(ctx: &mut Ctx) {
    // (template, lowest, highest) - `{}` is replaced by the literal
    const FORMS: [(&str, i64, i64); 16] = [
        (".blkw {}", 1, 65535), (".orig {}", 0, 65535), (".fill {}", -32768, 65535), ("TRAP {}", 0, 255), ("ADD R1, R2, {}", -16, 15), ("AND R7, R0, {}", -16, 15),
        ("LDR R1, R2, {}", -32, 31), ("STR R3, R6, {}", -32, 31), ("LD R1, {}", -256, 255), ("ST R4, {}", -256, 255), ("LEA R3, {}", -256, 255), ("LDI R2, {}", -256, 255),
        ("BRnz {}", -256, 255), ("NOP {}", -256, 255), ("JSR {}", -1024, 1023), ("Lbl JSR {}", -1024, 1023),
    ];
    let n = ctx.tier.pick(2_000, 60_000);
    ctx.cases(1, n, |ctx, rng, idx| {
        let (tpl, lo, hi) = FORMS[(idx % FORMS.len() as u64) as usize];
        let v = match rng.below(8) { 0 => lo, 1 => hi, 2 => lo + 1, 3 => hi - 1, 4 => (hi + 1) / 2, 5 => (hi + 1) / 2 - 1, 6 => 0.max(lo), _ => rng.range(lo, hi) };
        let lit = if v < 0 { match rng.below(3) { 0 => format!("#{v}"), 1 => format!("{v}"), _ => format!("x-{:X}", -v) } } else { match rng.below(3) { 0 => format!("#{v}"), 1 => format!("{v}"), _ => format!("x{v:X}") } };
        let src = tpl.replace("{}", &lit);
        ctx.eval();
        let case = || Json::obj().set("source", src.as_str());
        let Some(Ok(ast)) = ctx.no_panic("parse_ast", case, || parse_ast(&src)) else { ctx.count("boundary.first-parse-failed"); return };
        if ast.len() != 1 { return; }
        let Some(text) = ctx.no_panic("Display", case, || ast[0].to_string()) else { return };
        ctx.nontrivial_str(&text);
        let case = || Json::obj().set("source", src.as_str()).set("printed", text.as_str());
        let Some(back) = ctx.no_panic("parse_ast", case, || parse_ast(&text)) else { return };
        let name = from_crate(&ast[0]).k.name();
        match back {
            Err(e) => ctx.violation(&format!("printed-text-does-not-parse:{name}"), format!("{src:?} prints as {text:?}, which does not parse: {e:?}"), case()),
            Ok(b) if b.len() != 1 || from_crate(&b[0]) != from_crate(&ast[0]) => ctx.violation(&format!("reparse-differs:{name}"), format!("{src:?} prints as {text:?}, which reparses as {:?}", b.iter().map(from_crate).collect::<Vec<_>>()), case()),
            Ok(_) => { ctx.count("boundary.roundtrip"); if v == lo || v == hi { ctx.count("boundary.roundtrip.at-limit"); } }
        }
    });
}

fn guard(m: &Merged, _t: Tier) -> Vec<String> {
    let mut out = vec![];
    for n in ["ADDr", "ADDi", "ANDr", "ANDi", "BR", "JMP", "JSR", "JSRR", "LD", "LDI", "LDR", "LEA", "NOT", "RET", "RTI", "ST", "STI", "STR", "TRAP", "NOP",
              "GETC", "OUT", "PUTC", "PUTS", "IN", "PUTSP", "HALT", ".orig", ".fill", ".blkw", ".stringz", ".end", ".external"] { need(m, &mut out, &format!("roundtrip.{n}"), 20); }
    need(m, &mut out, "boundary.roundtrip", 1000); need(m, &mut out, "boundary.roundtrip.at-limit", 200);
    for k in ["string.quote", "string.backslash", "string.control", "labels.1", "labels.2"] { need(m, &mut out, k, 20); }
    out
}

//! C23 Symbol-table label queries agree and ignore case.
//! C24 Line-to-address debug mapping is one-to-one.
use super::*;
use crate::gen::*;
use crate::json::Json;
use crate::objutil::*;
use std::collections::{BTreeMap, BTreeSet};

pub fn prop23() -> Prop {
    Prop {
        id: "C23", title: "Symbol-table label queries agree and ignore case", level: "exploration",
        rule: "Generated programs (ASCII mixed-case labels, several labels on one statement, the same label repeated on one address, labels on .end and on .external lines, .external declarations) are assembled with debug symbols; \
               for every label under its defining spelling, upper, lower and a random re-casing: lookup_label = reference address (0 for externals); get_label_source = the byte span of the label's first defining occurrence \
               (label position, or the .external operand), whose text equals the name ignoring case; rev_lookup_label(address) names a label recorded at that address; label_iter as a set equals the reference (addresses and external flags); \
               names not in the program give None from all three queries. Non-trivial = program with at least one label; distinct = distinct sources.",
        assumptions: &["the renderer's recorded label spans", "programs that declare a label external and also define it at x0000 are excluded as ambiguous"],
        run: run23, guard: guard23,
        level_text: "Runtime monitor of all four label queries against the generator's ground truth under four case spellings per label, over generated programs.",
        level_note: "ASCII labels only; sampled programs.",
        technique: "ground-truth comparison of query results over generated programs",
        ..Prop::base("C23", "")
    }
}
pub fn prop24() -> Prop {
    Prop {
        id: "C24", title: "Line-to-address debug mapping is one-to-one", level: "exploration",
        rule: "Generated programs rendered with label-only lines, comment and blank lines, CRLF, multi-word .blkw/.stringz and .external declarations inside and outside blocks are assembled with debug symbols; \
               for every statement that occupies memory lookup_line(its line) must be its first word's address and rev_lookup_line(address) its line; line_iter must equal the reference set exactly and be injective in both directions; \
               every other line (labels only, comments, blank, .orig, .end, .external) and every other address must map to None. Non-trivial = program with at least one sized statement; distinct = distinct sources.",
        assumptions: &["the renderer's record of each statement's line"],
        run: run24, guard: guard24,
        level_text: "Runtime monitor of the line map against the generator's ground truth, checking every line and every image address of each generated program.",
        level_note: "Sampled programs; one statement per line (the grammar allows no more).",
        technique: "ground-truth comparison of the debug line map over generated programs",
        ..Prop::base("C24", "")
    }
}

fn run23(ctx: &mut Ctx) {
    let n = ctx.tier.pick(8_000, 600_000);
    ctx.cases(0, n, |ctx, rng, _| {
        let opts = GenOpts { big_padding: rng.chance(1, 10), ..GenOpts::default() };
        let Some(mut g) = gen_object(rng, &opts, true) else { ctx.count("no-object"); return };
        // sometimes repeat a label on its own statement (same address: legal) and re-assemble
        if rng.chance(1, 4) {
            let mut p = Program { stmts: g.stmts.clone() };
            if faults::inject(rng, &mut p, "dup_label_same_addr") {
                let a = crate::refasm::analyze(&p.stmts);
                if !a.reject { let st = Style::random(rng); let r = render(rng, &p.stmts, &st); if let Ok(Ok(o)) = crate::asmutil::asm(&r.text, true) { g = GenObj { stmts: p.stmts, r, a, obj: o, debug: true }; ctx.count("programs.with-repeated-label"); } }
            }
        }
        // a file that declares externals keeps its label table (with the labels' source positions) even when assembled without
        // debug symbols: half of those programs are queried on that table
        if g.a.labels.values().any(|x| x.1) && rng.bool() {
            if let Ok(Ok(o)) = crate::asmutil::asm(&g.r.text, false) { if o.symbol_table().is_some() { g.obj = o; g.debug = false; ctx.count("programs.assembled-without-debug-symbols"); } }
        }
        ctx.eval();
        if g.a.labels.is_empty() { ctx.count("programs.without-labels"); return; }
        ctx.nontrivial_str(&g.r.text);
        let case = || Json::obj().set("source", g.r.text.as_str());
        let Some(sym) = g.obj.symbol_table() else { ctx.violation("no-symbol-table", "the assembled object has no symbol table", case()); return };
        // ambiguous: external and defined at x0000
        let by_addr: BTreeMap<u16, BTreeSet<String>> = { let mut m: BTreeMap<u16, BTreeSet<String>> = BTreeMap::new(); for (n, (a, _)) in &g.a.labels { m.entry(*a).or_default().insert(n.clone()); } m };
        for (name, (addr, ext)) in &g.a.labels {
            if *ext && g.a.label_def.contains_key(name) { ctx.count("labels.ambiguous-external-and-defined"); continue; }
            // expected first defining occurrence
            let (exp_span, written) = if let Some((si, li)) = g.a.label_def.get(name) { (g.r.stmts[*si].label_spans[*li].clone(), g.stmts[*si].labels[*li].clone()) }
                else if let Some(si) = g.a.external_decl.get(name) { let sp = g.r.stmts[*si].operand_label_span.clone().unwrap(); (sp, match &g.stmts[*si].k { K::External(l) => l.clone(), _ => unreachable!() }) }
                else { continue };
            let spellings = [written.clone(), name.to_uppercase(), name.to_lowercase(), recase(rng, name)];
            for (k, sp) in spellings.iter().enumerate() {
                let kind = ["as-written", "upper", "lower", "random-case"][k];
                if sym.lookup_label(sp) != Some(*addr) { ctx.violation(&format!("lookup_label:{kind}"), format!("lookup_label({sp:?}) = {:X?}, expected x{addr:04X}", sym.lookup_label(sp)), case()); return; }
                let got = sym.get_label_source(sp);
                if got != Some(exp_span.clone()) {
                    let why = if got.is_none() { "none" } else { "wrong-span" };
                    ctx.violation(&format!("get_label_source:{why}:{kind}"), format!("get_label_source({sp:?}) = {got:?}, expected {exp_span:?} (first defining occurrence {written:?})"), case()); return;
                }
                if !g.r.text[exp_span.clone()].eq_ignore_ascii_case(name) { ctx.violation("harness-span-record", "renderer span does not cover the label", case()); return; }
                ctx.count(&format!("queries.{kind}"));
            }
            match sym.rev_lookup_label(*addr) {
                Some(l) if by_addr[addr].contains(&l.to_uppercase()) => {}
                other => { ctx.violation("rev_lookup_label", format!("rev_lookup_label(x{addr:04X}) = {other:?}, labels there: {:?}", by_addr[addr]), case()); return; }
            }
            if *ext { ctx.count("labels.external"); }
            if by_addr[addr].len() > 1 { ctx.count("labels.sharing-an-address"); }
            if g.a.label_def.get(name).is_some_and(|(si, _)| matches!(g.stmts[*si].k, K::End)) { ctx.count("labels.on-end"); }
            if g.a.label_def.get(name).is_some_and(|(si, _)| matches!(g.stmts[*si].k, K::External(_))) { ctx.count("labels.on-external-line"); }
        }
        if let Some((sig, what)) = crate::asmutil::diff_labels(&g.a, sym) { ctx.violation(&format!("label_iter:{sig}"), what, case()); return; }
        // absent names
        for _ in 0..3 {
            let nme = format!("{}_absent", gen_label_name(rng));
            if g.a.labels.contains_key(&nme.to_uppercase()) { continue; }
            if sym.lookup_label(&nme).is_some() || sym.get_label_source(&nme).is_some() { ctx.violation("absent-name-found", format!("{nme} is not in the program but a query returned a result"), case()); return; }
            ctx.count("queries.absent");
        }
        let used: BTreeSet<u16> = g.a.labels.values().map(|x| x.0).collect();
        for _ in 0..3 { let a = rng.u16(); if !used.contains(&a) && sym.rev_lookup_label(a).is_some() { ctx.violation("rev_lookup_label:unlabelled-address", format!("rev_lookup_label(x{a:04X}) returned a label"), case()); return; } }
        if ctx.want_sample() && g.r.text.len() < 250 && g.a.labels.len() >= 2 { ctx.sample(Json::obj().set("source", g.r.text.as_str()).set("labels", format!("{:X?}", g.a.labels))); }
    });
}
fn guard23(m: &Merged, _t: Tier) -> Vec<String> {
    let mut out = vec![];
    for k in ["queries.as-written", "queries.upper", "queries.lower", "queries.random-case", "queries.absent", "labels.external", "labels.sharing-an-address", "labels.on-end", "labels.on-external-line", "programs.with-repeated-label", "programs.assembled-without-debug-symbols"] { need(m, &mut out, k, 50); }
    out
}

fn run24(ctx: &mut Ctx) {
    let n = ctx.tier.pick(8_000, 600_000);
    ctx.cases(0, n, |ctx, rng, _| {
        let opts = GenOpts { big_padding: rng.chance(1, 10), ..GenOpts::default() };
        let Some(g) = gen_object(rng, &opts, true) else { ctx.count("no-object"); return };
        ctx.eval();
        if g.a.stmt_addr.is_empty() { ctx.count("programs.empty"); return; }
        ctx.nontrivial_str(&g.r.text);
        let case = || Json::obj().set("source", g.r.text.as_str());
        let Some(sym) = g.obj.symbol_table() else { ctx.violation("no-symbol-table", "assemble_debug returned no symbol table", case()); return };
        let mut exp: BTreeMap<usize, u16> = BTreeMap::new();
        for (si, addr) in &g.a.stmt_addr { exp.insert(g.r.stmts[*si].line, *addr); }
        let nlines = g.r.text.matches('\n').count() + 1;
        let mut inside = false; let mut ext_inside = false; let mut ext_outside = false;
        for s in &g.stmts { match s.k { K::Orig(_) => inside = true, K::End => inside = false, K::External(_) => { if inside { ext_inside = true } else { ext_outside = true } } _ => {} } }
        for line in 0..nlines + 2 {
            let got = sym.lookup_line(line);
            let want = exp.get(&line).copied();
            if got != want {
                let what_line = g.r.text.split('\n').nth(line).unwrap_or("<past end>").trim().to_string();
                let cls = if want.is_none() { let up = what_line.to_uppercase(); if up.contains(".EXTERNAL") { "external-line-mapped" } else if up.contains(".ORIG") || up.contains(".END") { "orig-end-line-mapped" } else { "non-statement-line-mapped" } } else { "statement-line" };
                ctx.violation(&format!("lookup_line:{cls}"), format!("lookup_line({line}) = {got:X?}, expected {want:X?}; line text {what_line:?}"), case()); return;
            }
        }
        for (line, addr) in &exp {
            if sym.rev_lookup_line(*addr) != Some(*line) { ctx.violation("rev_lookup_line", format!("rev_lookup_line(x{addr:04X}) = {:?}, expected {line}", sym.rev_lookup_line(*addr)), case()); return; }
        }
        let firsts: BTreeSet<u16> = exp.values().copied().collect();
        for (addr, _) in &g.a.image { if !firsts.contains(addr) && sym.rev_lookup_line(*addr).is_some() { ctx.violation("rev_lookup_line:non-first-word", format!("rev_lookup_line(x{addr:04X}) = {:?} but no statement starts there", sym.rev_lookup_line(*addr)), case()); return; } }
        let it: Vec<(usize, u16)> = sym.line_iter().collect();
        let ls: BTreeSet<usize> = it.iter().map(|x| x.0).collect(); let ads: BTreeSet<u16> = it.iter().map(|x| x.1).collect();
        if ls.len() != it.len() || ads.len() != it.len() { ctx.violation("line_iter:not-injective", format!("line_iter yields {} pairs over {} lines and {} addresses", it.len(), ls.len(), ads.len()), case()); return; }
        if it.iter().copied().collect::<BTreeMap<_, _>>() != exp { ctx.violation("line_iter:differs", "line_iter differs from the reference line map", case()); return; }
        ctx.count("programs.checked");
        ctx.count_n("lines.checked", nlines as u64);
        if ext_inside { ctx.count("programs.external-inside-block"); }
        if ext_outside { ctx.count("programs.external-outside-block"); }
        if g.r.text.contains("\r\n") { ctx.count("programs.crlf"); }
        if g.stmts.iter().any(|s| s.k.size() > 1) { ctx.count("programs.multi-word-statement"); }
        if g.r.features.contains(&"label-on-own-line") { ctx.count("programs.label-only-lines"); }
        if ctx.want_sample() && g.r.text.len() < 220 && exp.len() >= 2 { ctx.sample(Json::obj().set("source", g.r.text.as_str()).set("line_map", format!("{exp:X?}"))); }
    });
}
fn guard24(m: &Merged, _t: Tier) -> Vec<String> {
    let mut out = vec![];
    for k in ["programs.checked", "programs.external-inside-block", "programs.external-outside-block", "programs.crlf", "programs.multi-word-statement", "programs.label-only-lines"] { need(m, &mut out, k, 50); }
    out
}

//! C33 Keyboard and display deliver bytes exactly once under lock contention.
use super::*;
use crate::json::Json;
use crate::rng::Rng;
use crate::simutil::*;
use lc3_ensemble::sim::device::{BufferedDisplay, BufferedKeyboard, ExternalDevice};
use lc3_ensemble::sim::mem::MachineInitStrategy;
use lc3_ensemble::sim::{SimFlags, Simulator};
use std::sync::atomic::{AtomicBool, Ordering};
use std::sync::Arc;

pub fn prop() -> Prop {
    Prop {
        id: "C33", title: "Keyboard and display deliver bytes exactly once under lock contention", level: "fault_enumeration",
        rule: "Echo programs built on the OS traps (GETC+OUT loop followed by PUTS; IN; PUTS/PUTSP only) run on a Simulator with BufferedKeyboard/BufferedDisplay while the harness holds the keyboard and/or display buffer write lock for the duration of chosen step_in calls \
               (a try_write by the simulator on the same thread reports WouldBlock, which is exactly 'another thread holds the lock between two instruction boundaries', with the lock state known at every boundary). \
               Phase 0: EXHAUSTIVE single hold windows: every boundary x {keyboard write lock, display write lock, both, keyboard read lock, display read lock} for inputs of 1-3 bytes. Phase 1: pairs of hold windows (all pairs for 1-byte inputs in thorough, sampled otherwise) and windows of 2-6 consecutive boundaries. Phase 2: random hold patterns (density 1/2 .. 1/50) on inputs of 4-40 bytes. \
               Oracle: the bytes the program receives (R0 at every GETC/IN return) equal the queued input, in order, each once; the keyboard queue is empty at the end; the display equals exactly the expected output. A status register (KBSR/DSR) read while the corresponding buffer is locked (read or write lock) must not report ready. Every divergence is classified by what the held lock covered at the first divergence: \
               a DDR store, a KBDR load (the two known findings), or neither (always a violation). Phase 3: a real second thread takes the locks at random while run() executes; checked there (invariants that hold under every schedule even with the known findings): no panic; an output-only program's display is a subsequence of the expected output (no duplicate/reordered byte); an input-only program receives the queued bytes in order, possibly with stale repeats, and the unread bytes are a suffix of the input. \
               Phase 4 (also the Miri/TSan workload): the devices driven directly through ExternalDevice with a contending thread. Non-trivial = run in which a lock was held during at least one step; distinct = (program, input, hold pattern).",
        assumptions: &["the simulator never blocks on the buffer locks (try_write), so boundary-granular hold patterns cover every interleaving a second thread can produce with respect to simulator instructions", "programs wait for KBSR/DSR readiness through the OS traps"],
        exhaustive: never, run, guard,
        stages: || vec![st("miri", "4", 4, 4, 420), st("miri", "3", 1, 1, 600), st("tsan", "3,4", 60, 4, 600)],
        level_text: "Fault enumeration over lock-hold schedules at run time: exhaustive single hold windows and (thorough) exhaustive pairs on short inputs, random patterns on long inputs, plus real-thread stress; an exactly-once/in-order stream oracle with divergence classification.",
        level_note: "The two known findings (byte dropped when the lock covers the DDR store; stale byte when it covers the KBDR load) are reported as KNOWN-FINDING; any other divergence fails the check.",
        technique: "deterministic schedule injection at instruction boundaries + exactly-once stream monitor; real-thread stress under Miri/TSan as supplementary oracle",
        ..Prop::base("C33", "")
    }
}

#[derive(Clone, Copy, Debug, PartialEq, Eq)]
enum Hold { None, Kbd, Disp, Both, KbdRead, DispRead }
impl Hold { fn kbd(self) -> bool { matches!(self, Hold::Kbd | Hold::Both | Hold::KbdRead) } fn disp(self) -> bool { matches!(self, Hold::Disp | Hold::Both | Hold::DispRead) } fn read_only(self) -> bool { matches!(self, Hold::KbdRead | Hold::DispRead) } }
const HOLDS: [Hold; 5] = [Hold::Kbd, Hold::Disp, Hold::Both, Hold::KbdRead, Hold::DispRead];

#[derive(Clone, Debug)]
struct Prog { text: String, expect_out: Vec<u8>, name: &'static str, reads: usize }
fn programs(input: &[u8], which: u64) -> Prog {
    let n = input.len();
    match which % 3 {
        0 => { let mut out = input.to_vec(); out.extend_from_slice(b"ok"); Prog { text: format!(".orig x3000\nAND R1, R1, #0\nLD R1, N\nLOOP GETC\nOUT\nADD R1, R1, #-1\nBRp LOOP\nLEA R0, MSG\nPUTS\nHALT\nN .fill {n}\nMSG .stringz \"ok\"\n.end\n"), expect_out: out, name: "getc-out-puts", reads: n } }
        1 => { let mut out = vec![]; for b in input { out.extend_from_slice(b"Input character: "); out.push(*b); } Prog { text: format!(".orig x3000\nLD R1, N\nLOOP IN\nADD R1, R1, #-1\nBRp LOOP\nHALT\nN .fill {n}\n.end\n"), expect_out: out, name: "in", reads: n } }
        _ => { let s: String = input.iter().map(|b| (0x41 + b % 26) as char).collect(); let mut out = s.clone().into_bytes(); out.extend(s.bytes()); let packed: String = s.as_bytes().chunks(2).map(|c| format!(".fill x{:04X}\n", c[0] as u16 | (c.get(1).copied().unwrap_or(0) as u16) << 8)).collect(); Prog { text: format!(".orig x3000\nLEA R0, S\nPUTS\nLEA R0, P\nPUTSP\nHALT\nS .stringz \"{s}\"\nP {packed}.fill 0\n.end\n"), expect_out: out, name: "puts-putsp", reads: 0 } }
    }
}

struct Outcome { status_ready_under_lock: Option<String>, received: Vec<u16>, display: Vec<u8>, kbd_left: Vec<u8>, steps: u64, ended: &'static str, kbdr_under_lock: u64, ddr_under_lock: u64, held_steps: u64, status_under_lock: u64 }

fn run_sched(p: &Prog, input: &[u8], sched: &dyn Fn(u64) -> Hold) -> Option<Outcome> { run_sched_p(p, input, sched, false, false) }
/// `poison_kbd` / `poison_disp`: the other thread (the one feeding the keyboard / draining the display) died while holding the
/// buffer's write guard. The lock is poisoned but free, and the data it protects is intact.
fn run_sched_p(p: &Prog, input: &[u8], sched: &dyn Fn(u64) -> Hold, poison_kbd: bool, poison_disp: bool) -> Option<Outcome> {
    let mut sim = Simulator::new(SimFlags { machine_init: MachineInitStrategy::Known { value: 0 }, ..Default::default() });
    let kb = BufferedKeyboard::default();
    if poison_kbd { let b = kb.get_buffer().clone(); let inp = input.to_vec(); let _ = std::thread::spawn(move || { let mut g = b.write().unwrap(); g.extend(inp.iter().copied()); panic!("keyboard feeder dies holding the buffer lock"); }).join(); if !kb.get_buffer().is_poisoned() { return None; } }
    else { kb.get_buffer().write().unwrap().extend(input.iter().copied()); }
    sim.device_handler.set_keyboard(kb.clone());
    let ds = BufferedDisplay::default();
    if poison_disp { let b = ds.get_buffer().clone(); let _ = std::thread::spawn(move || { let _g = b.write().unwrap(); panic!("display reader dies holding the buffer lock"); }).join(); if !ds.get_buffer().is_poisoned() { return None; } }
    sim.device_handler.set_display(ds.clone());
    let ast = lc3_ensemble::parse::parse_ast(&p.text).ok()?;
    let obj = lc3_ensemble::asm::assemble(ast).ok()?;
    sim.load_obj_file(&obj).ok()?;
    let mut o = Outcome { status_ready_under_lock: None, received: vec![], display: vec![], kbd_left: vec![], steps: 0, ended: "step-bound", kbdr_under_lock: 0, ddr_under_lock: 0, held_steps: 0, status_under_lock: 0 };
    for k in 0..40_000u64 {
        let h = sched(k);
        let pc0 = sim.pc;
        let w = sim.mem[pc0].get();
        // which I/O register does this instruction address (LDI/STI through a pointer cell)?
        let target = if w >> 12 == 0b1010 || w >> 12 == 0b1011 { let off = ((w & 0x1FF) as i16) << 7 >> 7; Some(sim.mem[pc0.wrapping_add(1).wrapping_add(off as u16)].get()) } else { None };
        let was_trap_return = sim.psr().privileged() && w == 0x8000; // RTI
        // write guards, or (KbdRead/DispRead) read guards as a reader of the buffer would hold
        let (gk, gd, gkr, gdr);
        { gk = if h.kbd() && !h.read_only() { Some(kb.get_buffer().write().unwrap()) } else { None }; gd = if h.disp() && !h.read_only() { Some(ds.get_buffer().write().unwrap()) } else { None };
          gkr = if h == Hold::KbdRead { Some(kb.get_buffer().read().unwrap()) } else { None }; gdr = if h == Hold::DispRead { Some(ds.get_buffer().read().unwrap()) } else { None }; }
        if h != Hold::None { o.held_steps += 1; match target { Some(0xFE02) if h.kbd() => o.kbdr_under_lock += 1, Some(0xFE06) if h.disp() => o.ddr_under_lock += 1, Some(0xFE00) if h.kbd() => o.status_under_lock += 1, Some(0xFE04) if h.disp() => o.status_under_lock += 1, _ => {} } }
        let (i0, d0) = (sim.instructions_run, sim.frame_stack.len());
        let r = sim.step_in();
        drop(gk); drop(gd); drop(gkr); drop(gdr);
        // a status register polled while the buffer is locked must not report ready: the data access that follows could not be served
        if w >> 12 == 0b1010 && r.is_ok() {
            let dr = ((w >> 9) & 7) as usize;
            let v = sim.reg_file[reg(dr)].get();
            match target { Some(0xFE04) if h.disp() && v & 0x8000 != 0 && o.status_ready_under_lock.is_none() => o.status_ready_under_lock = Some(format!("display:{h:?}: DSR read x{v:04X} at step {k} while the display buffer was locked")),
                           Some(0xFE00) if h.kbd() && v & 0x8000 != 0 && o.status_ready_under_lock.is_none() => o.status_ready_under_lock = Some(format!("keyboard:{h:?}: KBSR read x{v:04X} at step {k} while the keyboard buffer was locked")), _ => {} }
        }
        o.steps += 1;
        if r.is_err() { o.ended = "error"; break; }
        // a GETC/IN returned to user code: R0 is what the program received
        if was_trap_return && !sim.psr().privileged() { let caller = sim.mem[sim.pc.wrapping_sub(1)].get(); if caller == 0xF020 || caller == 0xF023 { o.received.push(sim.reg_file[reg(0)].get()); } }
        if w == 0xF025 && sim.pc == pc0 && sim.instructions_run == i0 && sim.frame_stack.len() == d0 { o.ended = "halt"; break; }
    }
    o.display = ds.get_buffer().read().unwrap_or_else(|e| e.into_inner()).clone();
    o.kbd_left = kb.get_buffer().read().unwrap_or_else(|e| e.into_inner()).iter().copied().collect();
    Some(o)
}

/// Exactly-once / in-order oracle with classification. Returns (signature, description) on divergence.
fn judge(p: &Prog, input: &[u8], o: &Outcome) -> Option<(String, String)> {
    let want_recv: Vec<u16> = input.iter().take(p.reads).map(|b| *b as u16).collect();
    let recv_bad = o.received != want_recv || !o.kbd_left.is_empty() && p.reads == input.len();
    let disp_bad = o.display != p.expect_out;
    if o.ended != "halt" && !recv_bad && !disp_bad { return Some((format!("program-does-not-finish:{}", o.ended), format!("program ended with {} after {} steps", o.ended, o.steps))); }
    if !recv_bad && !disp_bad { return None; }
    if recv_bad {
        let d = format!("program received {:?}, queued input {:?}, left in queue {:?}", o.received, input, o.kbd_left);
        return Some((if o.kbdr_under_lock > 0 { "kbd-stale:lock-held-during-KBDR-load".into() } else { format!("kbd-stream-wrong:no-lock-on-data-access:{}", p.name) }, d));
    }
    let d = format!("display {:?}, expected {:?}", String::from_utf8_lossy(&o.display), String::from_utf8_lossy(&p.expect_out));
    Some((if o.ddr_under_lock > 0 { "display-drop:lock-held-during-DDR-store".into() } else if o.kbdr_under_lock > 0 { "kbd-stale:lock-held-during-KBDR-load".into() } else { format!("display-stream-wrong:no-lock-on-data-access:{}", p.name) }, d))
}

fn account(ctx: &mut Ctx, p: &Prog, input: &[u8], o: &Outcome, sched_desc: &str) -> bool {
    ctx.eval();
    ctx.count_n("steps.lock-held", o.held_steps);
    ctx.count_n("steps.lock-held.status-read", o.status_under_lock);
    ctx.count_n("steps.lock-held.data-access", o.kbdr_under_lock + o.ddr_under_lock);
    ctx.count_n("bytes.received", o.received.len() as u64);
    ctx.count_n("bytes.displayed", o.display.len() as u64);
    if let Some(s) = &o.status_ready_under_lock {
        let dev = s.split(':').next().unwrap_or("");
        ctx.violation(&format!("status-reports-ready-while-lock-held:{dev}:{}", if s.contains("Read") { "read-lock" } else { "write-lock" }), format!("{s} [{sched_desc}]"), Json::obj().set("program", p.text.as_str()).set("input", format!("{input:?}")).set("schedule", sched_desc));
        return false;
    }
    match judge(p, input, o) {
        None => { ctx.count(&format!("runs.exactly-once.{}", p.name)); true }
        Some((sig, d)) => {
            ctx.count(&format!("runs.diverged.{}", sig.split(':').next().unwrap_or("")));
            ctx.violation(&sig, format!("{d} [{sched_desc}]"), Json::obj().set("program", p.text.as_str()).set("input", format!("{input:?}")).set("schedule", sched_desc).set("lock_held_on_KBDR_loads", o.kbdr_under_lock).set("lock_held_on_DDR_stores", o.ddr_under_lock));
            false
        }
    }
}

fn run(ctx: &mut Ctx) {
    // phase 0: exhaustive single windows
    let inputs: Vec<Vec<u8>> = vec![vec![0x41], vec![0x61, 0x62], vec![0x31, 0x32, 0x33], vec![0x5A, 0x5A]];
    let combos: Vec<(usize, u64)> = (0..inputs.len()).flat_map(|i| (0..3u64).map(move |w| (i, w))).collect();
    ctx.cases(0, combos.len() as u64, |ctx, _rng, c| {
        let (ii, which) = combos[c as usize];
        let input = &inputs[ii];
        let p = programs(input, which);
        let Some(base) = run_sched(&p, input, &|_| Hold::None) else { ctx.count("setup-failed"); return };
        if judge(&p, input, &base).is_some() { ctx.violation("uncontended-run-wrong", "the program does not echo correctly without any contention", Json::obj().set("program", p.text.as_str())); return; }
        let nb = base.steps;
        ctx.count_n("exhaustive.boundaries", nb);
        for b in 0..nb { for h in HOLDS {
            let Some(o) = run_sched(&p, input, &|k| if k == b { h } else { Hold::None }) else { continue };
            ctx.nontrivial(crate::rng::hash64(&[c, b, h as u64]));
            account(ctx, &p, input, &o, &format!("hold {h:?} during step {b}"));
        } }
        ctx.count("exhaustive.programs");
    });
    // phase 1: pairs and multi-step windows
    let npairs = ctx.tier.pick_exact(36_000, 0);
    ctx.cases(1, combos.len() as u64, |ctx, rng, c| {
        let (ii, which) = combos[c as usize];
        let input = &inputs[ii];
        let p = programs(input, which);
        let Some(base) = run_sched(&p, input, &|_| Hold::None) else { return };
        let nb = base.steps;
        let all_pairs = npairs == 0 && input.len() == 1;
        let mut todo: Vec<(u64, u64, Hold, Hold, u64)> = vec![];
        if all_pairs { for b1 in 0..nb { for b2 in b1 + 1..nb + 6 { for h1 in [Hold::Kbd, Hold::Disp, Hold::DispRead] { for h2 in [Hold::Kbd, Hold::Disp, Hold::KbdRead] { todo.push((b1, b2, h1, h2, 1)); } } } } }
        else { let k = if npairs == 0 { 20_000 } else { npairs / combos.len() as u64 }; for _ in 0..k { let b1 = rng.below(nb); let b2 = b1 + rng.below(12); let hs = HOLDS; todo.push((b1, b2, *rng.pick(&hs), *rng.pick(&hs), 1 + rng.below(6))); } }
        for (b1, b2, h1, h2, len) in todo {
            let Some(o) = run_sched(&p, input, &|k| if k >= b1 && k < b1 + len { h1 } else if k >= b2 && k < b2 + len { h2 } else { Hold::None }) else { continue };
            ctx.nontrivial(crate::rng::hash64(&[c, b1, b2, h1 as u64, h2 as u64, len]));
            account(ctx, &p, input, &o, &format!("hold {h1:?} during steps {b1}..{} and {h2:?} during steps {b2}..{}", b1 + len, b2 + len));
        }
        ctx.count("pairs.programs");
    });
    // phase 2: random patterns on long inputs
    let n = ctx.tier.pick(600, 60_000);
    ctx.cases(2, n, |ctx, rng, idx| {
        let input: Vec<u8> = (0..4 + rng.usize(37)).map(|_| 1 + rng.below(255) as u8).collect();
        let p = programs(&input, idx);
        let density = *rng.pick(&[2u64, 3, 5, 10, 25, 50]);
        let seed = rng.next();
        let only = *rng.pick(&[Hold::Both, Hold::Kbd, Hold::Disp, Hold::None, Hold::None, Hold::KbdRead, Hold::DispRead]);
        let sched = move |k: u64| { let mut r = Rng::new(seed ^ k.wrapping_mul(0x9E3779B97F4A7C15)); if r.chance(1, density) { match only { Hold::None => *r.pick(&HOLDS), h => h } } else { Hold::None } };
        let Some(o) = run_sched(&p, &input, &sched) else { return };
        ctx.nontrivial(crate::rng::hash64(&[seed, density, idx]));
        account(ctx, &p, &input, &o, &format!("random holds, density 1/{density}, kinds {only:?}, seed {seed}"));
        ctx.count("random.programs");
        if ctx.want_sample() && input.len() < 8 { ctx.sample(Json::obj().set("program", p.text.as_str()).set("input", format!("{input:?}")).set("schedule", format!("random holds, density 1/{density}")).set("display", format!("{:?}", String::from_utf8_lossy(&o.display))).set("steps_with_lock_held", o.held_steps)); }
    });
    // phase 3: a real contending thread. Outcomes are schedule-dependent, so only invariants that hold on the unchanged code under
    // every schedule (including the two known findings) are checked: an output-only program may lose bytes but never duplicates or
    // reorders them; an input-only program receives the queued bytes in order, possibly interleaved with stale repeats of the last
    // delivered byte, and what is left in the queue is a suffix of the input.
    let n = ctx.tier.pick_exact(60, 3_000);
    ctx.cases(3, n, |ctx, rng, idx| {
        let input: Vec<u8> = (0..8 + rng.usize(24)).map(|_| 1 + rng.below(255) as u8).collect();
        let output_only = idx % 2 == 0;
        let p = if output_only { programs(&input, 2) } else { Prog { text: format!(".orig x3000\nLD R1, N\nLEA R2, BUF\nLOOP GETC\nSTR R0, R2, #0\nADD R2, R2, #1\nADD R1, R1, #-1\nBRp LOOP\nHALT\nN .fill {}\nBUF .blkw 64\n.end\n", input.len()), expect_out: vec![], name: "getc-store", reads: input.len() } };
        let mut sim = Simulator::new(SimFlags { machine_init: MachineInitStrategy::Known { value: 0 }, ..Default::default() });
        let kb = BufferedKeyboard::default(); kb.get_buffer().write().unwrap().extend(input.iter().copied()); sim.device_handler.set_keyboard(kb.clone());
        let ds = BufferedDisplay::default(); sim.device_handler.set_display(ds.clone());
        let Ok(ast) = lc3_ensemble::parse::parse_ast(&p.text) else { return }; let Ok(obj) = lc3_ensemble::asm::assemble(ast) else { return };
        if sim.load_obj_file(&obj).is_err() { return; }
        let stop = Arc::new(AtomicBool::new(false));
        let (kb2, ds2, stop2, seed) = (kb.clone(), ds.clone(), stop.clone(), rng.next());
        let t = std::thread::spawn(move || { let mut r = Rng::new(seed); let mut n = 0u64; while !stop2.load(Ordering::Relaxed) { match r.below(3) { 0 => { let g = kb2.get_buffer().write().unwrap(); std::hint::black_box(g.len()); } 1 => { let g = ds2.get_buffer().write().unwrap(); std::hint::black_box(g.len()); } _ => { let g = ds2.get_buffer().read().unwrap(); std::hint::black_box(g.len()); } } n += 1; if r.chance(1, 4) { std::thread::yield_now(); } } n });
        ctx.eval();
        let r = crate::monitor::guard(|| sim.run_with_limit(2_000_000));
        stop.store(true, Ordering::Relaxed);
        let grabs = t.join().unwrap_or(0);
        let case = || Json::obj().set("program", p.text.as_str()).set("input", format!("{input:?}")).set("lock_grabs_by_other_thread", grabs);
        match r { Err(pi) => { ctx.violation(&format!("threaded:panic:{}", pi.sig()), pi.msg, case()); return; } Ok(Err(e)) => { ctx.violation("threaded:error", err_kind(&e).to_string(), case()); return; } Ok(Ok(())) => {} }
        let display = ds.get_buffer().read().unwrap().clone();
        let left: Vec<u8> = kb.get_buffer().read().unwrap().iter().copied().collect();
        let exact;
        if output_only {
            let mut it = p.expect_out.iter();
            if !display.iter().all(|b| it.any(|e| e == b)) { ctx.violation("threaded:display-not-a-subsequence", format!("display {:?} is not a subsequence of the expected output {:?} (duplicate or reordered byte)", display, p.expect_out), case()); return; }
            if left != input { ctx.violation("threaded:keyboard-touched-by-output-program", "an output-only program consumed keyboard input", case()); return; }
            exact = display == p.expect_out;
        } else {
            if !input.ends_with(&left) { ctx.violation("threaded:keyboard-not-consumed-in-order", format!("unread keyboard bytes {left:?} are not a suffix of the input"), case()); return; }
            let buf = 0x3000 + 9u16;
            let got: Vec<u16> = (0..input.len() as u16).map(|i| sim.mem[buf + i].get()).collect();
            // walk: each received value is the next queued byte, or a stale repeat of the last delivered one (0 before any)
            let (mut i, mut last) = (0usize, 0u16);
            for (k, v) in got.iter().enumerate() {
                if i < input.len() && *v == input[i] as u16 { last = *v; i += 1; } else if *v == last { /* stale mirror (known finding) */ } else { ctx.violation("threaded:received-byte-out-of-order", format!("value {k} received by the program is x{v:04X}: neither the next queued byte nor a stale repeat (received {got:04X?}, input {input:?})"), case()); return; }
            }
            if i + left.len() != input.len() { ctx.violation("threaded:keyboard-bytes-lost", format!("{} bytes delivered + {} left != {} queued", i, left.len(), input.len()), case()); return; }
            if !display.is_empty() { ctx.violation("threaded:display-touched-by-input-program", "an input-only program produced output", case()); return; }
            exact = i == input.len() && left.is_empty();
        }
        ctx.nontrivial(seed);
        ctx.count(if exact { "threaded.exactly-once" } else { "threaded.bytes-lost-under-contention" });
        ctx.count_n("threaded.lock-grabs", grabs);
    });
    // phase 4: devices driven directly with a contending thread (this is what runs under Miri and TSan)
    let n = ctx.tier.pick_exact(40, 400);
    ctx.cases(4, n, |ctx, rng, _| { device_level(ctx, rng, 400); });
    // phase 5: poisoned locks (the thread on the other side of a buffer panicked while holding its write guard): nothing holds the
    // lock any more, so every byte must still be delivered exactly once
    let n = ctx.tier.pick(60, 3_000);
    ctx.cases(5, n, |ctx, rng, idx| {
        let len = 1 + rng.usize(6);
        let input: Vec<u8> = (0..len).map(|_| 0x21 + rng.below(0x5d) as u8).collect();
        let p = programs(&input, idx);
        let (pk, pd) = match idx % 3 { 0 => (true, false), 1 => (false, true), _ => (true, true) };
        let Some(o) = run_sched_p(&p, &input, &|_| Hold::None, pk, pd) else { ctx.count("poison-setup-failed"); return };
        ctx.nontrivial(crate::rng::hash_bytes(format!("{input:?}{idx}").as_bytes()));
        let desc = format!("no lock held; poisoned: keyboard {pk}, display {pd}");
        if account(ctx, &p, &input, &o, &desc) { ctx.count(if pk && pd { "runs.poisoned.both" } else if pk { "runs.poisoned.keyboard" } else { "runs.poisoned.display" }); }
    });
}

/// Direct device workload: no Simulator involved, so it is cheap enough for Miri.
pub fn device_level(ctx: &mut Ctx, rng: &mut Rng, ops: usize) {
    let mut kb = BufferedKeyboard::default();
    let mut ds = BufferedDisplay::default();
    let input: Vec<u8> = (0..ops / 4).map(|_| rng.next() as u8).collect();
    kb.get_buffer().write().unwrap().extend(input.iter().copied());
    let stop = Arc::new(AtomicBool::new(false));
    let (kb2, ds2, stop2, seed) = (kb.clone(), ds.clone(), stop.clone(), rng.next());
    let t = std::thread::spawn(move || { let mut r = Rng::new(seed); let mut seen = 0usize; while !stop2.load(Ordering::Relaxed) { if r.bool() { let g = kb2.get_buffer().write().unwrap(); std::hint::black_box(g.len()); } else { let g = ds2.get_buffer().read().unwrap(); if g.len() < seen { return false; } seen = g.len(); } std::thread::yield_now(); } true });
    let mut got: Vec<u8> = vec![]; let mut sent: Vec<u8> = vec![];
    ctx.eval();
    for i in 0..ops {
        match rng.below(4) {
            0 => { if kb.io_read(0xFE00, true).is_some_and(|s| s & 0x8000 != 0) { if let Some(b) = kb.io_read(0xFE02, true) { got.push(b as u8); } } }
            1 => { if ds.io_read(0xFE04, true).is_some_and(|s| s & 0x8000 != 0) { let b = i as u8; if ds.io_write(0xFE06, b as u16) { sent.push(b); } } }
            2 => { let _ = kb.io_write(0xFE00, if rng.bool() { 0x4000 } else { 0 }); let _ = kb.poll_interrupt(); }
            _ => { let _ = kb.io_read(0xFE02, false); let _ = ds.poll_interrupt(); }
        }
    }
    stop.store(true, Ordering::Relaxed);
    let monotone = t.join().unwrap_or(false);
    let case = || Json::obj().set("ops", ops).set("input_len", input.len());
    if !monotone { ctx.violation("device-level:display-shrank", "the display buffer seen by the other thread got shorter", case()); return; }
    let left: Vec<u8> = kb.get_buffer().read().unwrap().iter().copied().collect();
    let mut all = got.clone(); all.extend(left.iter());
    if all != input { ctx.violation("device-level:keyboard-bytes-lost-or-duplicated", format!("popped {got:?} + queued {left:?} != input"), case()); return; }
    if *ds.get_buffer().read().unwrap() != sent { ctx.violation("device-level:display-differs-from-accepted-writes", "display buffer differs from the writes the device accepted", case()); return; }
    ctx.nontrivial(seed);
    ctx.count("device-level.ok");
    ctx.count_n("device-level.bytes", (got.len() + sent.len()) as u64);
}

fn guard(m: &Merged, _t: Tier) -> Vec<String> {
    let mut out = vec![];
    for k in ["exhaustive.programs", "pairs.programs", "random.programs", "steps.lock-held", "steps.lock-held.status-read", "steps.lock-held.data-access", "bytes.received", "bytes.displayed", "device-level.ok"] { need(m, &mut out, k, 10); }
    for p in ["getc-out-puts", "in", "puts-putsp"] { need(m, &mut out, &format!("runs.exactly-once.{p}"), 50); }
    for k in ["runs.poisoned.keyboard", "runs.poisoned.display", "runs.poisoned.both"] { need(m, &mut out, k, 5); }
    if m.c("threaded.exactly-once") + m.c("threaded.bytes-lost-under-contention") < 10 { out.push("fewer than 10 threaded runs".into()); }
    out
}

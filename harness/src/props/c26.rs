//! C26 Assembler and linker error spans are well-formed.
use super::*;
use crate::gen::*;
use crate::json::Json;
use crate::objutil::*;
use crate::refasm::analyze;
use lc3_ensemble::asm::{AsmErr, AsmErrKind};
use lc3_ensemble::err::Error as _;

pub fn prop() -> Prop {
    Prop {
        id: "C26", title: "Assembler and linker error spans are well-formed", level: "fault_enumeration",
        rule: "Phase 0: faulty programs as in C02 (0-3 injected faults of 16 kinds plus the systematic boundary sweep) assembled with and without debug symbols; for every AsmErr: span() is Some, first() and iter() do not panic, \
               every span satisfies start <= end <= len(source), and for label errors (OverlappingLabels, UndetAddrLabel, CouldNotFindLabel, OffsetExternal, OffsetNewErr) each span's text is a label spelling that occurs in the program \
               (for OverlappingLabels: equal ignoring case to each other). Phase 1: failing links from conflicting file sets (every tree): span() is Some and first()/iter()/help()/Display do not panic. \
               Non-trivial = input that produced an error; distinct = distinct (source, error kind).",
        assumptions: &["a 'label error' is one of the five kinds listed", "link errors span several sources, so only queryability is checked for them"],
        abort_is_violation: true, run, guard,
        level_text: "Fault enumeration at run time: every assembler fault kind and failing link is provoked and every returned error's span list is interrogated under a panic monitor with bounds and label-text oracles.",
        level_note: "Sampled programs; spans are checked against the single source text the program was assembled from.",
        technique: "fault injection + span well-formedness monitor",
        ..Prop::base("C26", "")
    }
}

fn check_err(ctx: &mut Ctx, e: &AsmErr, src: Option<&str>, labels: &[String], case: &dyn Fn() -> Json, origin: &str) { check_err_a(ctx, e, src, labels, None, case, origin) }
/// `known`: the program's defined / declared labels (upper case -> is external), when the reference analysis is at hand
fn check_err_a(ctx: &mut Ctx, e: &AsmErr, src: Option<&str>, labels: &[String], known: Option<&std::collections::BTreeMap<String, bool>>, case: &dyn Fn() -> Json, origin: &str) {
    let kind = format!("{:?}", e.kind).split('(').next().unwrap().to_string();
    let Some(sp) = ctx.no_panic("AsmErr::span", case, || e.span()) else { return };
    let Some(sp) = sp else { ctx.violation(&format!("{origin}-error-without-span:{kind}"), format!("{:?} carries no span list", e.kind), case()); return };
    let Some(_first) = ctx.no_panic(&format!("ErrSpan::first[{origin}:{kind}]"), case, || sp.first()) else { return };
    let Some(all) = ctx.no_panic("ErrSpan::iter", case, || sp.iter().cloned().collect::<Vec<_>>()) else { return };
    let _ = ctx.no_panic("AsmErr::help/Display", case, || (e.help().map(|h| h.len()), e.to_string()));
    ctx.count(&format!("{origin}.errors.{kind}"));
    ctx.count(&format!("{origin}.spans-per-error.{}", all.len().min(3)));
    let Some(src) = src else { return };
    for s in &all {
        if !(s.start <= s.end && s.end <= src.len()) { ctx.violation(&format!("span-outside-source:{kind}"), format!("{:?} has span {s:?}; source has {} bytes", e.kind, src.len()), case()); return; }
    }
    let label_kind = matches!(e.kind, AsmErrKind::OverlappingLabels | AsmErrKind::UndetAddrLabel | AsmErrKind::CouldNotFindLabel | AsmErrKind::OffsetExternal | AsmErrKind::OffsetNewErr(_));
    if label_kind {
        let mut texts = vec![];
        for s in &all {
            let t = src.get(s.clone()).unwrap_or("<not on char boundary>");
            if !labels.iter().any(|l| l.eq_ignore_ascii_case(t)) { ctx.violation(&format!("label-error-span-not-a-label:{kind}"), format!("{:?} span {s:?} covers {t:?}, which is not a label of the program", e.kind), case()); return; }
            // the span must cover the *offending* label, not just any label of the program
            if let Some(known) = known {
                let up = t.to_uppercase();
                match e.kind {
                    AsmErrKind::CouldNotFindLabel if known.contains_key(&up) => { ctx.violation("label-error-span-covers-another-label:CouldNotFindLabel", format!("CouldNotFindLabel span {s:?} covers {t:?}, which the program does define or declare"), case()); return; }
                    AsmErrKind::OffsetExternal if known.get(&up) != Some(&true) => { ctx.violation("label-error-span-covers-another-label:OffsetExternal", format!("OffsetExternal span {s:?} covers {t:?}, which is not an external label"), case()); return; }
                    _ => {}
                }
            }
            texts.push(t.to_string());
        }
        if matches!(e.kind, AsmErrKind::OverlappingLabels) && texts.len() >= 2 && !texts[0].eq_ignore_ascii_case(&texts[1]) { ctx.violation("overlapping-labels-spans-name-different-labels", format!("spans cover {texts:?}"), case()); return; }
        ctx.count("label-spans.checked");
    }
}

fn run(ctx: &mut Ctx) {
    let n = ctx.tier.pick(25_000, 1_500_000);
    ctx.cases(0, n, |ctx, rng, _| {
        let opts = GenOpts { big_padding: rng.chance(1, 5), ..GenOpts::default() };
        let mut prog = gen_program(rng, &opts);
        let nf = 1 + rng.usize(3);
        let mut tags = vec![];
        for _ in 0..nf { let f = *rng.pick(&faults::FAULTS); if faults::inject(rng, &mut prog, f) { tags.push(f); } }
        // in a sixth of the programs every label gets a multi-byte (caseless) suffix: spans are byte ranges, names have characters
        let wide_labels = rng.chance(1, 6);
        if wide_labels {
            let suffix = *rng.pick(&["文", "é", "字列", "ß9"]);
            widen_labels(&mut prog.stmts, suffix);
        }
        let a = analyze(&prog.stmts);
        let style = Style::random(rng);
        let mut r = render(rng, &prog.stmts, &style);
        // a byte order mark in front of the text (files saved by some editors): whatever the outcome, spans must refer to this text
        let bom = rng.chance(1, 12);
        if bom { r.text.insert(0, '\u{feff}'); }
        ctx.eval();
        let mut labels: Vec<String> = prog.stmts.iter().flat_map(|s| s.labels.clone()).collect();
        for s in &prog.stmts { match &s.k { K::External(l) | K::Fill(PcOp::Label(l)) => labels.push(l.clone()), k => if let Some((PcOp::Label(l), _)) = k.pc_operand() { labels.push(l.clone()); } } }
        for debug in [true, false] {
            let case = || Json::obj().set("source", r.text.as_str()).set("debug", debug).set("violated", Json::Arr(a.faults.iter().map(|f| Json::from(f.as_str())).collect()));
            let Some(res) = ctx.no_panic("assemble", &case, || crate::asmutil::asm(&r.text, debug)) else { return };
            if let Ok(Err(e)) = res { ctx.nontrivial_str(&format!("{}{:?}", r.text, e.kind)); let known: std::collections::BTreeMap<String, bool> = { let ext: std::collections::BTreeSet<String> = prog.stmts.iter().filter_map(|st| if let K::External(l) = &st.k { Some(l.to_uppercase()) } else { None }).collect(); let def: std::collections::BTreeSet<String> = prog.stmts.iter().flat_map(|st| st.labels.iter().map(|l| l.to_uppercase())).collect(); let mut k = std::collections::BTreeMap::new(); for n in &ext { if !def.contains(n) { k.insert(n.clone(), true); } } for n in &def { if !ext.contains(n) { k.insert(n.clone(), false); } } k }; check_err_a(ctx, &e, Some(&r.text), &labels, Some(&known), &case, "asm"); if wide_labels { ctx.count("asm.errors.with-multibyte-labels"); } if bom { ctx.count("asm.errors.with-byte-order-mark"); } if ctx.want_sample() && r.text.len() < 200 { ctx.sample(Json::obj().set("source", r.text.as_str()).set("error", format!("{:?}", e.kind)).set("span", format!("{:?}", e.span))); } }
        }
    });
    let n = ctx.tier.pick(1_500, 100_000);
    ctx.cases(1, n, |ctx, rng, _| {
        let nf = 2 + rng.usize(2);
        let files = gen_link_set(rng, nf, true);
        if files.iter().any(|f| f.a.reject) { return; }
        // with debug symbols, without (files that declare externals still carry a label table), and mixed
        let mode = rng.below(3);
        let mut objs = vec![];
        for (i, f) in files.iter().enumerate() { let dbg = match mode { 0 => true, 1 => false, _ => i % 2 == 0 }; match crate::asmutil::asm(&f.r.text, dbg) { Ok(Ok(o)) => objs.push(o), _ => return } }
        ctx.count(&format!("link.sets.{}", ["debug", "nodebug", "mixed"][mode as usize]));
        for t in &all_trees(nf) {
            ctx.eval();
            // evaluate manually to get the AsmErr itself
            fn ev(t: &Tree, objs: &[lc3_ensemble::asm::ObjectFile]) -> Result<lc3_ensemble::asm::ObjectFile, AsmErr> {
                match t { Tree::Leaf(i) => Ok(objs[*i].clone()), Tree::Node(a, b) => { let l = ev(a, objs)?; let r = ev(b, objs)?; lc3_ensemble::asm::ObjectFile::link(l, r) } }
            }
            let show = t.show();
            let case = || Json::obj().set("tree", show.as_str()).set("sources", Json::Arr(files.iter().map(|f| Json::from(f.r.text.as_str())).collect()));
            let Some(res) = ctx.no_panic("ObjectFile::link", &case, || ev(t, &objs)) else { return };
            if let Err(e) = res { ctx.nontrivial_str(&format!("{show}{:?}{}", e.kind, files[0].r.text)); check_err(ctx, &e, None, &[], &case, "link"); }
        }
    });
}

fn guard(m: &Merged, _t: Tier) -> Vec<String> {
    let mut out = vec![];
    for k in ["UndetAddrLabel", "UndetAddrStmt", "UnclosedOrig", "UnopenedOrig", "OverlappingOrig", "OverlappingLabels", "BlockInIO", "OverlappingBlocks", "OffsetNewErr", "OffsetExternal", "CouldNotFindLabel"] { need(m, &mut out, &format!("asm.errors.{k}"), 5); }
    for k in ["link.sets.debug", "link.sets.nodebug", "link.sets.mixed"] { need(m, &mut out, k, 20); }
    need(m, &mut out, "link.errors.OverlappingBlocks", 20); need(m, &mut out, "link.errors.OverlappingLabels", 20); need(m, &mut out, "label-spans.checked", 500); need(m, &mut out, "asm.errors.with-multibyte-labels", 100);
    out
}

//! C05 Numeric and register tokens denote exactly their written value.
use super::*;
use crate::gen::{from_crate, K, PcOp, Src};
use crate::json::Json;
use crate::rng::Rng;
use lc3_ensemble::parse::lex::Token;
use lc3_ensemble::parse::parse_ast;
use logos::Logos;

pub fn prop() -> Prop {
    Prop {
        id: "C05", title: "Numeric and register tokens denote exactly their written value", level: "exploration",
        rule: "Phase 0 (exhaustive over the integer range): every integer v in [-70000, 140000] written in every notation (n, #n, -n, #-n, xH, XH, x-H, with and without leading zeros) is lexed as a bare token \
               and parsed as a .fill operand; acceptance and value must match arithmetic (unsigned forms 0..=65535, signed forms -32768..=32767). Phase 1: every operand field (imm5, offset6, PCoffset9, PCoffset11, \
               trapvect8, .orig, .blkw) with values within +-40 of every field limit, power of two and 16-bit limit (quick) or the whole range (thorough), in every notation; accepted iff representable in the field. \
               Phase 2: register tokens R/r + 1..12 digits for values 0..=300 and random long digit strings, bare and as an operand. Phase 3: random 20-digit and junk-suffixed literals. \
               Distinct = distinct literal spellings; all are non-trivial.",
        assumptions: &["harness i64 arithmetic defines the written value", "bare-token access uses the crate's public logos Token lexer"],
        exhaustive: |_| false, shards: |t| match t { Tier::Quick => 8, Tier::Thorough => 16 }, run, guard,
        level_text: "Runtime oracle check, exhaustive for the stated integer range as bare token and .fill operand and for field values near every limit (thorough: whole range for every field); compares the real lexer/parser with integer arithmetic.",
        level_note: "Values beyond [-70000,140000] are only sampled; trusts the harness's arithmetic.",
        technique: "bounded-exhaustive oracle comparison of lexer/parser against integer arithmetic",
        ..Prop::base("C05", "")
    }
}

/// spellings of v; each returns (text, is_signed_form)
fn spellings(v: i64, rng: &mut Rng) -> Vec<(String, bool)> {
    let mut out = vec![];
    let z = if rng.bool() { "0" } else { "000" };
    if v >= 0 {
        out.push((format!("{v}"), false)); out.push((format!("#{v}"), false));
        out.push((format!("x{v:X}"), false)); out.push((format!("X{v:x}"), false));
        out.push((format!("{z}{v}"), false)); out.push((format!("#{z}{v}"), false)); out.push((format!("x{z}{v:x}"), false));
    }
    if v <= 0 {
        let m = -v;
        out.push((format!("-{m}"), true)); out.push((format!("#-{m}"), true));
        out.push((format!("x-{m:X}"), true)); out.push((format!("X-{m:x}"), true));
        out.push((format!("#-{z}{m}"), true)); out.push((format!("x-{z}{m:X}"), true));
    }
    out
}

fn token_valid(v: i64, signed_form: bool) -> bool { if signed_form { (-32768..=0).contains(&v) } else { (0..=65535).contains(&v) } }

fn check_bare(ctx: &mut Ctx, text: &str, v: i64, signed_form: bool) {
    ctx.eval();
    let case = || Json::obj().set("token", text).set("value", v);
    let Some((first, second)) = ctx.no_panic("lexer", case, || { let mut lx = Token::lexer(text); (lx.next(), lx.next()) }) else { return };
    let valid = token_valid(v, signed_form);
    let form = if signed_form { "signed" } else { "unsigned" };
    if second.is_some() { ctx.violation(&format!("token-split:{form}"), format!("{text:?} lexes as more than one token: {first:?} then {second:?}"), case()); return; }
    match (first, valid) {
        (Some(Ok(Token::Unsigned(n))), true) if !signed_form && n as i64 == v => ctx.count("bare.accepted.unsigned"),
        (Some(Ok(Token::Signed(n))), true) if signed_form && n as i64 == v => ctx.count("bare.accepted.signed"),
        (Some(Err(_)), false) => ctx.count(&format!("bare.rejected.{form}")),
        (got, _) => ctx.violation(&format!("bare-token:{form}:{}", if valid { "should-accept" } else { "should-reject" }), format!("{text:?} (value {v}) lexes as {got:?}"), case()),
    }
}

fn check_fill(ctx: &mut Ctx, text: &str, v: i64, signed_form: bool) {
    ctx.eval();
    let src = format!(".fill {text}");
    let case = || Json::obj().set("source", src.as_str()).set("value", v);
    let Some(res) = ctx.no_panic("parse_ast", case, || parse_ast(&src)) else { return };
    let valid = token_valid(v, signed_form);
    match (res, valid) {
        (Ok(ast), true) if ast.len() == 1 && from_crate(&ast[0]).k == K::Fill(PcOp::Num((v & 0xFFFF) as i32)) => ctx.count("fill.accepted"),
        (Err(_), false) => ctx.count("fill.rejected"),
        (got, _) => ctx.violation(&format!("fill-operand:{}", if valid { "should-accept" } else { "should-reject" }), format!("{src:?} (value {v}) parses as {:?}", got.map(|a| a.iter().map(from_crate).collect::<Vec<_>>())), case()),
    }
}

struct Field { name: &'static str, bits: u32, signed: bool, nonzero: bool }
const FIELDS: [Field; 7] = [
    Field { name: "imm5", bits: 5, signed: true, nonzero: false }, Field { name: "offset6", bits: 6, signed: true, nonzero: false },
    Field { name: "pcoffset9", bits: 9, signed: true, nonzero: false }, Field { name: "pcoffset11", bits: 11, signed: true, nonzero: false },
    Field { name: "trapvect8", bits: 8, signed: false, nonzero: false }, Field { name: "orig", bits: 16, signed: false, nonzero: false },
    Field { name: "blkw", bits: 16, signed: false, nonzero: true },
];

/// every mnemonic that takes the field (the field check is repeated for each of them)
fn field_forms(f: &Field) -> usize { match f.name { "imm5" => 2, "offset6" => 2, "pcoffset9" => 10, _ => 1 } }
const BRS: [(&str, u8); 4] = [("BR", 7), ("BRnzp", 7), ("BRz", 2), ("brnp", 5)];
fn field_src(f: &Field, form: usize, tok: &str) -> String {
    match (f.name, form) {
        ("imm5", 0) => format!("ADD R1, R2, {tok}"), ("imm5", _) => format!("AND R7, R0, {tok}"),
        ("offset6", 0) => format!("LDR R1, R2, {tok}"), ("offset6", _) => format!("STR R3, R6, {tok}"),
        ("pcoffset9", 0) => format!("LD R1, {tok}"), ("pcoffset9", 1) => format!("LDI R2, {tok}"), ("pcoffset9", 2) => format!("LEA R3, {tok}"),
        ("pcoffset9", 3) => format!("ST R4, {tok}"), ("pcoffset9", 4) => format!("STI R5, {tok}"), ("pcoffset9", 5) => format!("NOP {tok}"),
        ("pcoffset9", k) => format!("{} {tok}", BRS[k - 6].0),
        ("pcoffset11", _) => format!("JSR {tok}"), ("trapvect8", _) => format!("TRAP {tok}"), ("orig", _) => format!(".orig {tok}"), _ => format!(".blkw {tok}"),
    }
}
fn field_expect(f: &Field, form: usize, v: i64) -> K {
    let n = PcOp::Num(v as i32);
    match (f.name, form) {
        ("imm5", 0) => K::Add(1, 2, Src::Imm(v as i32)), ("imm5", _) => K::And(7, 0, Src::Imm(v as i32)),
        ("offset6", 0) => K::Ldr(1, 2, v as i32), ("offset6", _) => K::Str(3, 6, v as i32),
        ("pcoffset9", 0) => K::Ld(1, n), ("pcoffset9", 1) => K::Ldi(2, n), ("pcoffset9", 2) => K::Lea(3, n), ("pcoffset9", 3) => K::St(4, n), ("pcoffset9", 4) => K::Sti(5, n),
        ("pcoffset9", 5) => K::Nop(Some(n)), ("pcoffset9", k) => K::Br(BRS[k - 6].1, n),
        ("pcoffset11", _) => K::Jsr(n), ("trapvect8", _) => K::Trap(v as i32), ("orig", _) => K::Orig(v as i32), _ => K::Blkw(v as i32),
    }
}

fn check_field(ctx: &mut Ctx, f: &Field, text: &str, v: i64, signed_form: bool) {
    let fits = token_valid(v, signed_form) && if f.signed { v >= -(1i64 << (f.bits - 1)) && v < (1i64 << (f.bits - 1)) } else { v >= 0 && v < (1i64 << f.bits) } && !(f.nonzero && v == 0);
    for form in 0..field_forms(f) {
        ctx.eval();
        let src = field_src(f, form, text);
        let case = || Json::obj().set("source", src.as_str()).set("value", v).set("field", f.name);
        let Some(res) = ctx.no_panic("parse_ast", case, || parse_ast(&src)) else { return };
        let mn = src.split(' ').next().unwrap_or("").to_uppercase();
        match (res, fits) {
            (Ok(ast), true) if ast.len() == 1 && from_crate(&ast[0]).k == field_expect(f, form, v) => { ctx.count(&format!("field.{}.accepted", f.name)); if form > 0 { ctx.count("field.other-mnemonics.accepted"); } }
            (Err(_), false) => { ctx.count(&format!("field.{}.rejected", f.name)); if form > 0 { ctx.count("field.other-mnemonics.rejected"); } }
            (got, _) => { ctx.violation(&format!("field:{}:{}{}", f.name, if fits { "should-accept" } else { "should-reject" }, if form > 0 { format!(":{mn}") } else { String::new() }), format!("{src:?} (value {v}) parses as {:?}", got.map(|a| a.iter().map(from_crate).collect::<Vec<_>>())), case()); return; }
        }
    }
}

fn run(ctx: &mut Ctx) {
    // phase 0: all integers, bare + .fill (chunked so that a replay names a small range)
    const LO: i64 = -70000; const HI: i64 = 140000; const CH: i64 = 1000;
    let chunks = ((HI - LO + 1) + CH - 1) / CH;
    ctx.cases(0, chunks as u64, |ctx, rng, c| {
        let a = LO + c as i64 * CH; let b = (a + CH - 1).min(HI);
        for v in a..=b {
            for (t, s) in spellings(v, rng) { ctx.nontrivial_enum(1); check_bare(ctx, &t, v, s); check_fill(ctx, &t, v, s); }
        }
        ctx.count_n("integers-covered", (b - a + 1) as u64);
    });
    // phase 1: fields
    let mut interesting: Vec<i64> = vec![];
    if ctx.tier == Tier::Quick {
        let mut centers: Vec<i64> = vec![0, 65535, 65536, 32767, 32768, -32768, -32769];
        for b in 0..=17 { centers.push(1 << b); centers.push(-(1 << b)); }
        for c in centers { for d in -40..=40 { interesting.push(c + d); } }
        interesting.sort(); interesting.dedup();
    } else { interesting = (LO..=HI).collect(); }
    let per = 500usize;
    let nchunks = interesting.len().div_ceil(per);
    ctx.cases(1, nchunks as u64, |ctx, rng, c| {
        let lo = c as usize * per; let hi = (lo + per).min(interesting.len());
        for &v in &interesting[lo..hi] {
            for (t, s) in spellings(v, rng) { for f in &FIELDS { ctx.nontrivial_enum(1); check_field(ctx, f, &t, v, s); } }
        }
    });
    // phase 2: registers
    ctx.cases(2, 301, |ctx, rng, n| {
        for lead in [0usize, 1, 2, 5, 9] {
            if lead + n.to_string().len() > 12 { continue; }
            for c in ['R', 'r'] {
                let text = format!("{c}{}{}", "0".repeat(lead), n);
                ctx.eval(); ctx.nontrivial_enum(1);
                let case = || Json::obj().set("token", text.as_str());
                let Some(t) = ctx.no_panic("lexer", case, || { let mut lx = Token::lexer(&text); (lx.next(), lx.next()) }) else { continue };
                let ok = n <= 7;
                match (&t, ok) {
                    ((Some(Ok(Token::Reg(r))), None), true) if *r as u64 == n => ctx.count("reg.accepted"),
                    ((Some(Err(_)), None), false) => ctx.count("reg.rejected"),
                    _ => ctx.violation(&format!("register-token:{}", if ok { "should-accept" } else { "should-reject" }), format!("{text:?} lexes as {t:?}"), case()),
                }
                let src = format!("NOT R1, {text}");
                let Some(p) = ctx.no_panic("parse_ast", case, || parse_ast(&src)) else { continue };
                match (p, ok) {
                    (Ok(ast), true) if ast.len() == 1 && from_crate(&ast[0]).k == K::Not(1, n as u8) => ctx.count("reg-operand.accepted"),
                    (Err(_), false) => ctx.count("reg-operand.rejected"),
                    (got, _) => ctx.violation("register-operand", format!("{src:?} parses as {:?}", got.map(|a| a.iter().map(from_crate).collect::<Vec<_>>())), case()),
                }
            }
        }
        // long digit strings
        let digits: String = (0..12).map(|_| (b'0' + rng.below(10) as u8) as char).collect();
        let text = format!("R{digits}");
        let val: u64 = digits.parse().unwrap();
        let case = || Json::obj().set("token", text.as_str());
        if let Some(t) = ctx.no_panic("lexer", case, || Token::lexer(&text).next()) {
            ctx.eval();
            match (t, val <= 7) {
                (Some(Ok(Token::Reg(r))), true) if r as u64 == val => ctx.count("reg.accepted"),
                (Some(Err(_)), false) => ctx.count("reg.rejected"),
                (got, _) => ctx.violation("register-token:long", format!("{text:?} lexes as {got:?}"), case()),
            }
        }
    });
    // phase 3: huge values and junk suffixes must be rejected
    let n = ctx.tier.pick(4000, 200_000);
    ctx.cases(3, n, |ctx, rng, _| {
        let digits: String = (0..(6 + rng.usize(18))).map(|i| if i == 0 { (b'1' + rng.below(9) as u8) as char } else { (b'0' + rng.below(10) as u8) as char }).collect();
        let text = match rng.below(8) {
            0 => digits.clone(), 1 => format!("#{digits}"), 2 => format!("-{digits}"), 3 => format!("#-{digits}"), 4 => format!("x{digits}"), 5 => format!("x-{digits}"),
            6 => format!("{}q", rng.below(100)), _ => format!("x{:x}g", rng.below(4096)),
        };
        ctx.eval(); ctx.nontrivial_str(&text);
        let case = || Json::obj().set("token", text.as_str());
        let Some(t) = ctx.no_panic("lexer", case, || { let mut lx = Token::lexer(&text); (lx.next(), lx.next()) }) else { return };
        match t { (Some(Err(_)), None) => ctx.count("huge-or-junk.rejected"), got => ctx.violation("huge-or-junk-literal-accepted", format!("{text:?} lexes as {got:?}"), case()) }
        let src = format!(".fill {text}");
        if let Some(Ok(ast)) = ctx.no_panic("parse_ast", case, || parse_ast(&src)) { ctx.violation("huge-or-junk-fill-accepted", format!("{src:?} parses as {:?}", ast.iter().map(from_crate).collect::<Vec<_>>()), case()); }
    });
    if ctx.shard == 0 {
        ctx.sample(Json::obj().set("case", "x-8000 -> Signed(-32768); x-8001 rejected; 65535 -> Unsigned(65535); 65536 rejected"));
        ctx.sample(Json::obj().set("case", "ADD R1, R2, #15 accepted; ADD R1, R2, #16 rejected; ADD R1, R2, x-10 accepted; TRAP #-0 accepted as 0; .blkw 0 rejected"));
    }
}

fn guard(m: &Merged, t: Tier) -> Vec<String> {
    let mut out = vec![];
    need(m, &mut out, "integers-covered", 210_001);
    for k in ["bare.accepted.unsigned", "bare.accepted.signed", "bare.rejected.unsigned", "bare.rejected.signed", "fill.accepted", "fill.rejected", "reg.accepted", "reg.rejected", "reg-operand.accepted", "reg-operand.rejected", "huge-or-junk.rejected"] { need(m, &mut out, k, 10); }
    for f in &FIELDS { need(m, &mut out, &format!("field.{}.accepted", f.name), if t == Tier::Quick { 10 } else { 30 }); need(m, &mut out, &format!("field.{}.rejected", f.name), 50); }
    out
}

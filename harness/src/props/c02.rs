//! C02 Assembler accepts exactly the well-formed programs.
use super::*;
use crate::asmutil::*;
use crate::gen::*;
use crate::json::Json;
use crate::refasm::{analyze, kind_of_crate, Analysis};
use crate::rng::Rng;

pub fn prop() -> Prop {
    Prop {
        id: "C02", title: "Assembler accepts exactly the well-formed programs", level: "fault_enumeration",
        rule: "Phase 0: generated programs with 0-3 injected faults drawn from 16 fault kinds (missing/extra/nested .orig/.end, statements and labels outside blocks, duplicate labels in any case at \
               different/same address, undefined labels, deleted definitions, label offsets one past the 9/11-bit limit, blocks ending past xFE00 / exactly at x10000 / beyond, overlapping blocks, \
               external labels in PC-relative operands, external+defined). Phase 1: systematic boundary sweep (block end at xFDFF/xFE00/xFE01/xFFFF/x10000/x10001 for every size-bearing statement kind; \
               every touching/overlapping placement of two blocks with a far third block, both source orders; duplicate labels in 4 case spellings; every PC-relative mnemonic at +-limit and +-(limit+1)). \
               Each program is assembled with and without debug symbols; accept/reject must equal the reference classifier's verdict and a returned error kind must name one of the violated conditions. \
               Non-trivial = contains at least one fault or sits on a boundary; distinct = distinct rendered texts.",
        assumptions: &["reference classifier (refasm::analyze) encodes the well-formedness conditions of the property statement", "after a nested .orig or an overflowing block any address-dependent kind is accepted (verdict stays exact)"],
        run, guard,
        level_text: "Fault enumeration at run time: every fault kind and every boundary placement is injected into generated programs and the real assembler's verdict and error kind are compared with an exact reference classifier; the boundary sweep is complete for its stated grid, the rest is sampled.",
        level_note: "Trusts the reference classifier; the error-kind oracle is deliberately lenient after ambiguity points.",
        technique: "fault injection + reference well-formedness classifier",
        ..Prop::base("C02", "")
    }
}

pub fn check_program(ctx: &mut Ctx, stmts: &[GStmt], r: &Rendered, a: &Analysis, tags: &[String]) -> bool {
    let case = || case_json(r).set("reference_faults", Json::Arr(a.faults.iter().map(|f| Json::from(f.as_str())).collect())).set("injected", Json::Arr(tags.iter().map(|t| Json::from(t.as_str())).collect()));
    for debug in [true, false] {
        let Some(res) = ctx.no_panic("assemble", case, || asm(&r.text, debug)) else { return false };
        match res {
            Err(e) => { ctx.violation("parser-rejects-grammatical-text", format!("parse error: {e}"), case()); return false; }
            Ok(Ok(obj)) => {
                if a.reject {
                    let first = a.faults.first().cloned().unwrap_or_default();
                    let cls = a.acceptable.iter().next().map(|k| format!("{k:?}")).unwrap_or_default();
                    ctx.violation(&format!("accepts-ill-formed:{cls}"), format!("assembler (debug={debug}) accepted a program that violates: {first}"), case()); return false;
                }
                if let Some((sig, what)) = diff_image(stmts, a, &image_of(&obj)) { ctx.violation(&sig, what, case()); return false; }
                if debug { ctx.count("verdict.accept"); }
            }
            Ok(Err(e)) => {
                let k = kind_of_crate(&e.kind);
                if !a.reject { ctx.violation(&format!("rejects-well-formed:{k:?}"), format!("assembler (debug={debug}) returned {:?} for a well-formed program", e.kind), case()); return false; }
                if !a.acceptable.contains(&k) {
                    ctx.violation(&format!("error-kind-names-no-violated-condition:{k:?}"), format!("assembler returned {:?}; violated conditions: {:?}", e.kind, a.faults), case()); return false;
                }
                if debug { ctx.count(&format!("verdict.reject.{k:?}")); }
            }
        }
    }
    true
}

fn st(k: K) -> GStmt { GStmt { labels: vec![], k } }
fn lst(l: &str, k: K) -> GStmt { GStmt { labels: vec![l.to_string()], k } }

/// systematic boundary programs; returns (tag, statements)
fn sweep() -> Vec<(String, Vec<GStmt>)> {
    let mut v = vec![];
    // (a) block end positions for each size-bearing statement kind
    let lasts: Vec<(&str, K)> = vec![
        ("instr", K::Add(1, 2, Src::Imm(3))), ("fill", K::Fill(PcOp::Num(7))), ("blkw1", K::Blkw(1)), ("blkw5", K::Blkw(5)),
        ("stringz0", K::Stringz(String::new())), ("stringz3", K::Stringz("abc".into())), ("halt", K::Halt),
    ];
    for (name, last) in &lasts {
        for end in [0xFDFFu32, 0xFE00, 0xFE01, 0xFFFF, 0x10000, 0x10001] {
            for pre in [0u32, 2] {
                let len = last.size() + pre;
                if end < len || end - len > 0xFFFF { continue; }
                let mut s = vec![st(K::Orig((end - len) as i32))];
                for _ in 0..pre { s.push(st(K::Not(0, 0))); }
                s.push(st(last.clone()));
                s.push(st(K::End));
                v.push((format!("end.{name}.x{end:05X}.pre{pre}"), s));
            }
        }
    }
    // empty blocks anywhere are fine
    for o in [0xFE00, 0xFE01, 0xFFFF, 0x0000] { v.push((format!("empty-block.x{o:04X}"), vec![st(K::Orig(o)), st(K::End)])); }
    // (b) two blocks A=[x4000,x4004) and B of length 3 at every interesting position, third block far away, both orders
    for bstart in [0x3FFCu32, 0x3FFD, 0x3FFE, 0x3FFF, 0x4000, 0x4001, 0x4002, 0x4003, 0x4004, 0x4005] {
        for order in 0..2 {
            for third in [None, Some(0x4002u32), Some(0x5000), Some(0x3000)] {
                let a = vec![st(K::Orig(0x4000)), st(K::Halt), st(K::Halt), st(K::Halt), st(K::Halt), st(K::End)];
                let b = vec![st(K::Orig(bstart as i32)), st(K::Fill(PcOp::Num(1))), st(K::Blkw(1)), st(K::Getc), st(K::End)];
                let mut s = vec![];
                if let Some(t) = third { if t == 0x3000 { s.extend(vec![st(K::Orig(0x3000)), st(K::Blkw(0x0FFF)), st(K::End)]); } }
                if order == 0 { s.extend(a.clone()); s.extend(b.clone()); } else { s.extend(b.clone()); s.extend(a.clone()); }
                if let Some(t) = third { if t != 0x3000 { s.extend(vec![st(K::Orig(t as i32)), st(K::Puts), st(K::End)]); } }
                v.push((format!("blocks.b@x{bstart:04X}.order{order}.third{}", third.map(|t| format!("x{t:04X}")).unwrap_or("none".into())), s));
            }
        }
    }
    // (c) duplicate labels in every case spelling, different and same address
    for sp in ["Foo", "FOO", "foo", "fOO"] {
        v.push((format!("dup.diffaddr.{sp}"), vec![st(K::Orig(0x3000)), lst("Foo", K::Halt), lst(sp, K::Halt), st(K::End)]));
        v.push((format!("dup.sameaddr.{sp}"), vec![st(K::Orig(0x3000)), GStmt { labels: vec!["Foo".into(), sp.to_string()], k: K::Halt }, st(K::End)]));
        v.push((format!("dup.crossblock.{sp}"), vec![st(K::Orig(0x3000)), lst("Foo", K::Halt), st(K::End), st(K::Orig(0x4000)), lst(sp, K::Halt), st(K::End)]));
        v.push((format!("dup.ext-vs-def.{sp}"), vec![st(K::External("Foo".into())), st(K::Orig(0x3000)), lst(sp, K::Halt), st(K::End)]));
        v.push((format!("dup.ext-vs-def-at-0.{sp}"), vec![st(K::External("Foo".into())), st(K::Orig(0x0000)), lst(sp, K::Halt), st(K::End)]));
        v.push((format!("dup.ext-twice.{sp}"), vec![st(K::External("Foo".into())), st(K::External(sp.to_string())), st(K::Orig(0x3000)), st(K::Fill(PcOp::Label(sp.to_string()))), st(K::End)]));
    }
    // (d) every PC-relative mnemonic at +-limit and +-(limit+1)
    let mk: Vec<(&str, u32, Box<dyn Fn(PcOp) -> K>)> = vec![
        ("BR", 9, Box::new(|o| K::Br(7, o))), ("BRz", 9, Box::new(|o| K::Br(2, o))), ("LD", 9, Box::new(|o| K::Ld(1, o))), ("LDI", 9, Box::new(|o| K::Ldi(1, o))),
        ("LEA", 9, Box::new(|o| K::Lea(1, o))), ("ST", 9, Box::new(|o| K::St(1, o))), ("STI", 9, Box::new(|o| K::Sti(1, o))), ("NOP", 9, Box::new(|o| K::Nop(Some(o)))),
        ("JSR", 11, Box::new(|o| K::Jsr(o))),
    ];
    for (name, bits, f) in &mk {
        let hi = (1i32 << (bits - 1)) - 1; let lo = -(1i32 << (bits - 1));
        for d in [hi - 1, hi, hi + 1, lo + 1, lo, lo - 1] {
            // instr at A; target at A+1+d
            let mut s = vec![st(K::Orig(0x5000))];
            if d >= 0 {
                s.push(st(f(PcOp::Label("T".into()))));
                if d > 0 { s.push(st(K::Blkw(d))); }
                s.push(lst("t", K::Halt));
            } else {
                s.push(lst("T", K::Halt));
                let pad = -d - 2; // target at T, instr at T+1+pad: offset = -(pad+2)
                if pad > 0 { s.push(st(K::Blkw(pad))); }
                s.push(st(f(PcOp::Label("t".into()))));
            }
            s.push(st(K::End));
            v.push((format!("offset.{name}.{d}"), s));
        }
        // external and undefined operands
        v.push((format!("offset.{name}.external"), vec![st(K::External("E".into())), st(K::Orig(0x3000)), st(f(PcOp::Label("e".into()))), st(K::End)]));
        v.push((format!("offset.{name}.external-after"), vec![st(K::Orig(0x3000)), st(f(PcOp::Label("e".into()))), st(K::End), st(K::External("E".into()))]));
        v.push((format!("offset.{name}.undefined"), vec![st(K::Orig(0x3000)), st(f(PcOp::Label("nowhere".into()))), st(K::End)]));
    }
    // wrap-around reference between x0000 and xFDFF (modulo 2^16 arithmetic)
    v.push(("offset.JSR.wraparound".into(), vec![st(K::Orig(0x0000)), st(K::Jsr(PcOp::Label("far".into()))), st(K::End), st(K::Orig(0xFDFF)), lst("FAR", K::Ret), st(K::End)]));
    v.push(("offset.LD.wraparound-too-far".into(), vec![st(K::Orig(0x0000)), st(K::Ld(0, PcOp::Label("far".into()))), st(K::End), st(K::Orig(0xFDFF)), lst("FAR", K::Ret), st(K::End)]));
    // (e) structure
    v.push(("struct.no-orig".into(), vec![st(K::Halt)]));
    v.push(("struct.label-no-orig".into(), vec![lst("A", K::Halt)]));
    v.push(("struct.end-only".into(), vec![st(K::End)]));
    v.push(("struct.label-on-end-outside".into(), vec![lst("A", K::End)]));
    v.push(("struct.unclosed".into(), vec![st(K::Orig(0x3000)), st(K::Halt)]));
    v.push(("struct.nested".into(), vec![st(K::Orig(0x3000)), st(K::Halt), st(K::Orig(0x4000)), st(K::Halt), st(K::End)]));
    v.push(("struct.nested-closed-twice".into(), vec![st(K::Orig(0x3000)), st(K::Halt), st(K::Orig(0x4000)), st(K::Halt), st(K::End), st(K::End)]));
    v.push(("struct.label-on-orig".into(), vec![lst("A", K::Orig(0x3000)), st(K::Halt), st(K::End)]));
    v.push(("struct.label-on-end".into(), vec![st(K::Orig(0x3000)), st(K::Halt), lst("A", K::End)]));
    v.push(("struct.label-on-external-inside".into(), vec![st(K::Orig(0x3000)), st(K::Halt), lst("A", K::External("B".into())), st(K::Fill(PcOp::Label("a".into()))), st(K::End)]));
    v.push(("struct.label-on-external-outside".into(), vec![lst("A", K::External("B".into())), st(K::Orig(0x3000)), st(K::Halt), st(K::End)]));
    v.push(("struct.external-fill-outside".into(), vec![st(K::External("B".into())), st(K::Fill(PcOp::Label("B".into())))]));
    v.push(("struct.stmt-between-blocks".into(), vec![st(K::Orig(0x3000)), st(K::Halt), st(K::End), st(K::Halt), st(K::Orig(0x4000)), st(K::Halt), st(K::End)]));
    v.push(("struct.empty-program".into(), vec![]));
    v.push(("struct.only-external".into(), vec![st(K::External("X".into()))]));
    v.push(("struct.fill-undefined".into(), vec![st(K::Orig(0x3000)), st(K::Fill(PcOp::Label("nope".into()))), st(K::End)]));
    v
}

fn run(ctx: &mut Ctx) {
    // phase 1 first: the systematic sweep (each entry rendered plain and with random surface)
    let sw = sweep();
    ctx.cases(1, sw.len() as u64, |ctx, rng, i| {
        let (tag, stmts) = &sw[i as usize];
        let a = analyze(stmts);
        for style in [Style::plain(), Style::random(rng)] {
            let r = render(rng, stmts, &style);
            ctx.eval();
            ctx.nontrivial_str(&r.text);
            if !check_program(ctx, stmts, &r, &a, &[tag.clone()]) { return; }
        }
        let grp = tag.split('.').next().unwrap_or("");
        ctx.count(&format!("sweep.{grp}.{}", if a.reject { "rejected" } else { "accepted" }));
        if tag.starts_with("end.") && tag.contains("x0FE00") && !a.reject { ctx.count("boundary.accepted-ending-at-xFE00"); }
        if tag.starts_with("blocks.") && !a.reject { ctx.count("boundary.accepted-touching-blocks"); }
    });
    let n = ctx.tier.pick(30_000, 2_000_000);
    ctx.cases(0, n, |ctx, rng, _| {
        let mut opts = GenOpts::default();
        opts.big_padding = rng.chance(1, 4);
        let mut prog = gen_program(rng, &opts);
        // an eighth of the programs use label names that continue with non-ASCII letters (lower-case ones included)
        if rng.chance(1, 8) { let sfx = *rng.pick(&["é", "ω", "ж", "文", "ï2"]); widen_labels(&mut prog.stmts, sfx); ctx.count("programs.with-non-ascii-labels"); }
        let nf = match rng.below(10) { 0 | 1 => 0, 2..=6 => 1, 7 | 8 => 2, _ => 3 };
        let mut tags = vec![];
        for _ in 0..nf {
            let f = *rng.pick(&faults::FAULTS);
            if faults::inject(rng, &mut prog, f) { tags.push(f.to_string()); }
        }
        let a = analyze(&prog.stmts);
        let style = if rng.chance(1, 3) { Style::plain() } else { Style::random(rng) };
        let r = render(rng, &prog.stmts, &style);
        ctx.eval();
        if !tags.is_empty() { ctx.nontrivial_str(&r.text); }
        if !check_program(ctx, &prog.stmts, &r, &a, &tags) { return; }
        for t in &tags { ctx.count(&format!("fault.{t}.{}", if a.reject { "rejected" } else { "harmless" })); }
        ctx.count(&format!("faults-injected.{}", tags.len()));
        if a.faults.len() > 1 { ctx.count("programs.multiple-violated-conditions"); }
        if ctx.want_sample() && a.reject && r.text.len() < 260 {
            ctx.sample(Json::obj().set("source", r.text.as_str()).set("injected", Json::Arr(tags.iter().map(|t| Json::from(t.as_str())).collect())).set("violated", Json::Arr(a.faults.iter().map(|f| Json::from(f.as_str())).collect())));
        }
    });
    let _ = Rng::new(0);
}

fn guard(m: &Merged, _t: Tier) -> Vec<String> {
    let mut out = vec![];
    for k in ["UndetAddrLabel", "UndetAddrStmt", "UnclosedOrig", "UnopenedOrig", "OverlappingOrig", "OverlappingLabels", "WrappingBlock", "BlockInIO",
              "OverlappingBlocks", "OffsetFit(9)", "OffsetFit(11)", "OffsetExternal", "CouldNotFindLabel"] { need(m, &mut out, &format!("verdict.reject.{k}"), 1); }
    need(m, &mut out, "verdict.accept", 500);
    for f in faults::FAULTS { need_prefix(m, &mut out, &format!("fault.{f}."), 5); }
    for k in ["boundary.accepted-ending-at-xFE00", "boundary.accepted-touching-blocks", "sweep.end.rejected", "sweep.blocks.rejected", "sweep.dup.rejected", "sweep.dup.accepted", "sweep.offset.accepted", "sweep.offset.rejected", "sweep.struct.rejected", "programs.multiple-violated-conditions"] { need(m, &mut out, k, 1); }
    out
}

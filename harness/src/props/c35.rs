//! C35 Bounded offsets accept exactly the representable values — exhaustive.
use super::*;
use crate::json::Json;
use lc3_ensemble::ast::{Offset, OffsetNewErr};

pub fn prop() -> Prop {
    Prop {
        id: "C35", title: "Bounded offsets accept exactly the representable values", level: "exploration",
        rule: "Exhaustive: every i16 and every u16 value for every width N in 1..=16 (2 x 16 x 65536 values), through Offset::new and \
               Offset::new_trunc, compared with arithmetic on i64. Non-trivial/distinct = distinct (signedness, N, value) triples; \
               counters report accepted/rejected per width.",
        assumptions: &["i64 arithmetic of the harness is the specification of 'representable in N bits'"],
        exhaustive: always, shards: |_| 4, run, guard,
        level_text: "Exhaustive runtime check of Offset::new / new_trunc for every i16 and u16 value at every width 1..=16 against i64 arithmetic; complete for the stated space.",
        level_note: "Trusts the harness's i64 arithmetic as the definition of representability.",
        technique: "exhaustive oracle comparison",
        ..Prop::base("C35", "")
    }
}

fn check_signed<const N: u32>(ctx: &mut Ctx) {
    let lo = -(1i64 << (N - 1));
    let hi = (1i64 << (N - 1)) - 1;
    for v in i16::MIN..=i16::MAX {
        ctx.eval();
        let fits = (v as i64) >= lo && (v as i64) <= hi;
        let case = || Json::obj().set("kind", "i16").set("N", N).set("value", v as i64);
        let Some(r) = ctx.no_panic("Offset::new", case, || Offset::<i16, N>::new(v)) else { continue };
        match (r, fits) {
            (Ok(o), true) => { ctx.count(&format!("i16.N{N}.accepted")); if o.get() != v { ctx.violation("new-holds-other-value:i16", format!("Offset::<i16,{N}>::new({v}).get() = {}", o.get()), case()); } }
            (Err(e), false) => { ctx.count(&format!("i16.N{N}.rejected")); if e != OffsetNewErr::CannotFitSigned(N) { ctx.violation("new-wrong-error:i16", format!("Offset::<i16,{N}>::new({v}) = Err({e:?})"), case()); } }
            (Ok(_), false) => ctx.violation("new-accepts-unrepresentable:i16", format!("Offset::<i16,{N}>::new({v}) accepted; range is [{lo},{hi}]"), case()),
            (Err(_), true) => ctx.violation("new-rejects-representable:i16", format!("Offset::<i16,{N}>::new({v}) rejected; range is [{lo},{hi}]"), case()),
        }
        // sign extension of the low N bits
        let low = (v as i64) & ((1i64 << N) - 1);
        let exp = if low >= (1i64 << (N - 1)) { low - (1i64 << N) } else { low };
        let Some(t) = ctx.no_panic("Offset::new_trunc", case, || Offset::<i16, N>::new_trunc(v)) else { continue };
        if t.get() as i64 != exp { ctx.violation("new_trunc-wrong:i16", format!("Offset::<i16,{N}>::new_trunc({v}).get() = {}, expected {exp}", t.get()), case()); }
    }
    ctx.nontrivial_enum(65536);
    ctx.count("classes");
}
fn check_unsigned<const N: u32>(ctx: &mut Ctx) {
    let hi = (1i64 << N) - 1;
    for v in u16::MIN..=u16::MAX {
        ctx.eval();
        let fits = (v as i64) <= hi;
        let case = || Json::obj().set("kind", "u16").set("N", N).set("value", v as i64);
        let Some(r) = ctx.no_panic("Offset::new", case, || Offset::<u16, N>::new(v)) else { continue };
        match (r, fits) {
            (Ok(o), true) => { ctx.count(&format!("u16.N{N}.accepted")); if o.get() != v { ctx.violation("new-holds-other-value:u16", format!("Offset::<u16,{N}>::new({v}).get() = {}", o.get()), case()); } }
            (Err(e), false) => { ctx.count(&format!("u16.N{N}.rejected")); if e != OffsetNewErr::CannotFitUnsigned(N) { ctx.violation("new-wrong-error:u16", format!("Offset::<u16,{N}>::new({v}) = Err({e:?})"), case()); } }
            (Ok(_), false) => ctx.violation("new-accepts-unrepresentable:u16", format!("Offset::<u16,{N}>::new({v}) accepted; max is {hi}"), case()),
            (Err(_), true) => ctx.violation("new-rejects-representable:u16", format!("Offset::<u16,{N}>::new({v}) rejected; max is {hi}"), case()),
        }
        let exp = (v as i64) & hi;
        let Some(t) = ctx.no_panic("Offset::new_trunc", case, || Offset::<u16, N>::new_trunc(v)) else { continue };
        if t.get() as i64 != exp { ctx.violation("new_trunc-wrong:u16", format!("Offset::<u16,{N}>::new_trunc({v}).get() = {}, expected {exp}", t.get()), case()); }
    }
    ctx.nontrivial_enum(65536);
    ctx.count("classes");
}

macro_rules! widths {
    ($ctx:ident, $($n:literal),*) => {{
        let mut k = 0u64;
        $(
            if $ctx.replay_only.map(|(p, i)| p == 0 && i == k).unwrap_or(k % $ctx.nshards == $ctx.shard) { $ctx.cur = (0, k); check_signed::<$n>($ctx); }
            k += 1;
            if $ctx.replay_only.map(|(p, i)| p == 0 && i == k).unwrap_or(k % $ctx.nshards == $ctx.shard) { $ctx.cur = (0, k); check_unsigned::<$n>($ctx); }
            k += 1;
        )*
        let _ = k;
    }};
}

fn run(ctx: &mut Ctx) {
    widths!(ctx, 1, 2, 3, 4, 5, 6, 7, 8, 9, 10, 11, 12, 13, 14, 15, 16);
    if ctx.shard == 0 {
        ctx.sample(Json::obj().set("case", "Offset::<i16,5>::new(-16) accepted, new(16) rejected, new_trunc(16) = -16"));
        ctx.sample(Json::obj().set("case", "Offset::<u16,8>::new(255) accepted, new(256) rejected, new_trunc(0x1FF) = 255"));
    }
}

fn guard(m: &Merged, _t: Tier) -> Vec<String> {
    let mut out = vec![];
    if m.evaluations != 2 * 16 * 65536 { out.push(format!("evaluations {} != 2*16*65536", m.evaluations)); }
    for n in 1..=16 { need(m, &mut out, &format!("i16.N{n}.accepted"), 1 << n.min(16)); need(m, &mut out, &format!("u16.N{n}.accepted"), 1 << n.min(16)); }
    if m.c("classes") != 32 { out.push(format!("{} (signedness, N) classes covered, expected 32", m.c("classes"))); }
    out
}

//! C29 Loading places exactly the object image into a fresh machine.
//! C30 Reset restores a fresh machine and keeps configuration.
//! C31 Seeded simulations are reproducible.
use super::*;
use crate::gen::*;
use crate::json::Json;
use crate::objutil::*;
use crate::progs::*;
use crate::rng::Rng;
use crate::simutil::*;
use lc3_ensemble::sim::debug::{Breakpoint, Comparator};
use lc3_ensemble::sim::device::{BufferedDisplay, BufferedKeyboard, TimerDevice};
use lc3_ensemble::sim::mem::{MachineInitStrategy, Word};
use lc3_ensemble::sim::{InternalRegister, MemAccessCtx, SimFlags, Simulator};
use std::sync::Arc;

pub fn prop29() -> Prop {
    Prop {
        id: "C29", title: "Loading places exactly the object image into a fresh machine", level: "exploration",
        rule: "(a) A new simulator (all three initialization strategies, all flag combinations) must hold, at every address of the OS image, the word an independent reference assembler computes from /repo/src/os.asm (read at run time), initialized; \
               x FE00-xFFFF zero and initialized; with Known{v} every other word and register = v and uninitialized. (b) Generated object files (1-4 blocks, blocks at x0000 and ending exactly at xFE00, .blkw regions, .stringz, resolved externals via link) are loaded \
               into fresh, previously loaded and previously executed simulators: every initialized word of the file = its value and is_init; every reserved (.blkw) word is uninitialized; every other memory word (value and initialization), R0-R7 and the PC are bit-identical to a snapshot taken before the load; \
               files with unresolved externals are refused and change nothing. Non-trivial = load of a file with at least one .blkw or multi-block image; distinct = distinct object sources.",
        assumptions: &["reference assembler for the OS image; the crate's parser is used to read os.asm (decided by C03)"],
        run: run29, guard: guard29,
        level_text: "Runtime monitoring with a full 64K-word before/after comparison around every load and a reference-assembled OS image check at construction, over generated object files and all initialization strategies.",
        level_note: "Sampled object files; the OS source is read from the repository under test at run time.",
        technique: "snapshot/diff monitor + reference assembler",
        ..Prop::base("C29", "")
    }
}
pub fn prop30() -> Prop {
    Prop {
        id: "C30", title: "Reset restores a fresh machine and keeps configuration", level: "exploration",
        rule: "Random histories of up to 25 operations (load object, run_with_limit, step_in, register/memory/PC pokes, flag edits incl. debug_frames and the initialization strategy, breakpoint insert/remove, add/remove recording devices, set keyboard/display, \
               mmap/munmap internal registers, MMIO writes to PSR, saved SP, KBSR) followed by reset(). The result must equal Simulator::new(current flags) for Known and Seeded strategies on all 64K words (value and initialization), R0-R7, PC, PSR, saved SP, frame depth, frames() presence, \
               instructions_run, hit_halt/hit_breakpoint; and must have kept: the flags, the breakpoint set, the MCR handle (Arc::ptr_eq and shared effect), every internal-register mapping, every attached device on its ports (recording devices still answer; the next device id continues the sequence). \
               Non-trivial = history with at least one execution and one configuration change; distinct = history hash.",
        assumptions: &["a fresh machine is Simulator::new with the flags in force at reset time", "Unseeded initialization is not comparable and is excluded from the equality part"],
        run: run30, guard: guard30,
        level_text: "Runtime monitoring: full-state comparison of a reset machine with a newly constructed one plus configuration-preservation probes, over random operation histories.",
        level_note: "Sampled histories.",
        technique: "state-equivalence monitor against a freshly constructed instance over random histories",
        ..Prop::base("C30", "")
    }
}
pub fn prop31() -> Prop {
    Prop {
        id: "C31", title: "Seeded simulations are reproducible", level: "exploration",
        rule: "For generated programs, Seeded{seed}/Known{v} initialization, seeded TimerDevices (exact counts, inclusive and half-open ranges) with installed ISRs, and keyboard input, two simulators are constructed and run independently (one by step_in, compared step by step; in half of the cases the second is instead driven by run_with_limit segments and compared at segment ends): \
               in half of the runs both machines are disturbed identically midway (the program is loaded again over the running image, or reset() + reload with the timers still attached); R0-R7, PC, PSR, instructions_run, frame depth, display, keyboard queue after every step, a digest of all 64K words (value and initialization) every 64 steps and at the end. Known{v}: every register and every word outside the OS image and the I/O page holds v and is uninitialized. \
               Non-trivial = run of at least 20 steps with a timer interrupt or uninitialized data read; distinct = (program, seeds).",
        assumptions: &["two constructions in one process are independent (no shared global state besides the cached OS object file)"],
        run: run31, guard: guard31,
        level_text: "Runtime determinism monitor: two independent executions compared step by step (state) and periodically (full memory digest) over generated programs with seeded memory and seeded timers.",
        level_note: "Determinism is checked within one process and one build.",
        technique: "replay/determinism monitor over paired executions",
        ..Prop::base("C31", "")
    }
}

fn os_reference() -> Option<std::collections::BTreeMap<u16, Option<u16>>> {
    let path = concat!(env!("CARGO_MANIFEST_DIR"), "/../../repo/src/os.asm");
    let text = std::fs::read_to_string(path).or_else(|_| std::fs::read_to_string("/repo/src/os.asm")).ok()?;
    let ast = lc3_ensemble::parse::parse_ast(&text).ok()?;
    let stmts: Vec<GStmt> = ast.iter().map(from_crate).collect();
    let a = crate::refasm::analyze(&stmts);
    if a.reject { return None; }
    Some(a.image)
}

fn snapshot(s: &Simulator) -> (Vec<Word>, Vec<Word>, u16) { ((0..=0xFFFFu16).map(|a| s.mem[a]).collect(), (0..8).map(|i| s.reg_file[reg(i)]).collect(), s.pc) }

fn run29(ctx: &mut Ctx) {
    let Some(os) = os_reference() else { ctx.notes.push("could not read or assemble /repo/src/os.asm".into()); return };
    // (a) fresh machines
    ctx.cases(0, 96, |ctx, rng, idx| {
        // known values and seeds include the edge values 0 and all-ones
        let init = match idx % 3 { 0 => MachineInitStrategy::Known { value: match (idx / 3) % 4 { 0 => 0, 1 => 0xFFFF, _ => rng.u16() } }, 1 => MachineInitStrategy::Seeded { seed: match (idx / 3) % 4 { 0 => 0, 1 => u64::MAX, _ => rng.next() } }, _ => MachineInitStrategy::Unseeded };
        let flags = SimFlags { strict: rng.bool(), use_real_traps: rng.bool(), debug_frames: rng.bool(), ignore_privilege: rng.bool(), machine_init: init };
        ctx.eval();
        let case = || Json::obj().set("flags", format!("{flags:?}"));
        let Some(sim) = ctx.no_panic("Simulator::new", case, || Simulator::new(flags)) else { return };
        for (a, w) in &os { if let Some(v) = w { let m = sim.mem[*a]; if m.get() != *v || !m.is_init() { ctx.violation("os-image-word", format!("fresh machine: mem[x{a:04X}] = {m:?}, reference assembler gives x{v:04X}"), case()); return; } } }
        for a in 0xFE00..=0xFFFFu16 { let m = sim.mem[a]; if m.get() != 0 || !m.is_init() { ctx.violation("io-page-not-zero", format!("fresh machine: mem[x{a:04X}] = {m:?}"), case()); return; } }
        if let MachineInitStrategy::Known { value } = init {
            for a in 0..0xFE00u16 { if !os.contains_key(&a) { let m = sim.mem[a]; if m.get() != value || m.is_init() { ctx.violation("known-fill-memory", format!("mem[x{a:04X}] = {m:?}, expected uninitialized x{value:04X}"), case()); return; } } }
            for i in 0..8 { let m = sim.reg_file[reg(i)]; if m.get() != value || m.is_init() { ctx.violation("known-fill-register", format!("R{i} = {m:?}"), case()); return; } }
        }
        if sim.pc != 0x3000 { ctx.violation("fresh-pc", format!("fresh PC x{:04X}", sim.pc), case()); return; }
        ctx.count(&format!("fresh.{}", ["known", "seeded", "unseeded"][(idx % 3) as usize]));
        ctx.count_n("os-words-checked", os.len() as u64);
    });
    // (b) loads
    let n = ctx.tier.pick(1_200, 120_000);
    ctx.cases(1, n, |ctx, rng, idx| {
        let init = match idx % 3 { 0 => MachineInitStrategy::Known { value: rng.u16() }, 1 => MachineInitStrategy::Seeded { seed: rng.next() }, _ => MachineInitStrategy::Unseeded };
        let mut sim = Simulator::new(SimFlags { machine_init: init, use_real_traps: rng.bool(), ..Default::default() });
        let rounds = 1 + rng.usize(3);
        for round in 0..rounds {
            // an object: generated program, sometimes linked to resolve externals, sometimes with pending externals
            let opts = GenOpts { big_padding: rng.chance(1, 6), ..GenOpts::default() };
            let dbg = rng.bool();
            let Some(g) = gen_object(rng, &opts, dbg) else { ctx.count("no-object"); return };
            let has_ext = g.a.labels.values().any(|x| x.1);
            // the words the file reserves may hold anything when it is loaded: fully or partially initialized data left by an
            // earlier program (partial = some bits known, e.g. after AND with a mask)
            let mut predirtied = 0;
            if rng.chance(1, 3) {
                for (a, w) in &g.a.image { if w.is_none() && rng.chance(1, 2) { sim.mem[*a] = if rng.bool() { Word::new_init(rng.u16()) } else { Word::verif_from_parts(rng.u16(), *rng.pick(&[0xFF00u16, 0x00FF, 0x8000, 0x0001, 0xFFFE])) }; predirtied += 1; } }
            }
            let before = snapshot(&sim);
            ctx.eval();
            let case = || Json::obj().set("source", g.r.text.as_str()).set("round", round).set("init", format!("{init:?}")).set("reserved_words_holding_data_before_the_load", predirtied);
            let Some(res) = ctx.no_panic("load_obj_file", case, || sim.load_obj_file(&g.obj)) else { return };
            let after = snapshot(&sim);
            if has_ext {
                if res.is_ok() { ctx.violation("unresolved-external-loaded", "file with external labels loaded", case()); return; }
                if before.0 != after.0 || before.1 != after.1 || before.2 != after.2 { ctx.violation("refused-load-changed-state", "a refused load changed the machine", case()); return; }
                ctx.count("loads.refused-external");
                continue;
            }
            if let Err(e) = res { ctx.violation("load-fails", format!("{}", err_kind(&e)), case()); return; }
            for a in 0..=0xFFFFu16 {
                let (b, m) = (before.0[a as usize], after.0[a as usize]);
                match g.a.image.get(&a) {
                    Some(Some(v)) => if m.get() != *v || !m.is_init() { ctx.violation("loaded-word-wrong", format!("mem[x{a:04X}] = {m:?} after load, file says x{v:04X}"), case()); return; },
                    Some(None) => { if m.is_init() || m.verif_init_mask() != 0 { ctx.violation("reserved-word-initialized", format!("mem[x{a:04X}] (.blkw) = {m:?} is initialized after load (initialization mask x{:04X})", m.verif_init_mask()), case()); return; } }
                    None => if b != m { ctx.violation("other-memory-changed", format!("mem[x{a:04X}] changed from {b:?} to {m:?} although the file does not define it"), case()); return; },
                }
            }
            if before.1 != after.1 { ctx.violation("registers-changed-by-load", "a register changed", case()); return; }
            if before.2 != after.2 { ctx.violation("pc-changed-by-load", format!("PC x{:04X} -> x{:04X}", before.2, after.2), case()); return; }
            ctx.count(&format!("loads.ok.round{round}"));
            if g.a.image.values().any(|w| w.is_none()) || g.a.blocks.len() > 1 { ctx.nontrivial_str(&g.r.text); }
            if g.a.blocks.iter().any(|(s, w)| *s as u32 + w.len() as u32 == 0xFE00) { ctx.count("loads.block-ending-at-xFE00"); }
            if g.a.blocks.iter().any(|(s, _)| *s < 0x0200) { ctx.count("loads.block-in-vector-table"); }
            if g.a.image.values().any(|w| w.is_none()) { ctx.count("loads.with-blkw"); }
            if predirtied > 0 { ctx.count("loads.over-reserved-words-holding-data"); }
            // execute a little between loads
            if rng.bool() { sim.pc = g.a.blocks.first().map(|b| b.0).unwrap_or(0x3000); let mut c = 0; let _ = sim.run_while(|_| { c += 1; c < 40 }); ctx.count("executed-between-loads"); }
            if ctx.want_sample() && g.r.text.len() < 200 { ctx.sample(case()); }
        }
    });
}
fn guard29(m: &Merged, _t: Tier) -> Vec<String> {
    let mut out = vec![];
    for k in ["fresh.known", "fresh.seeded", "fresh.unseeded"] { need(m, &mut out, k, 10); }
    for k in ["loads.ok.round0", "loads.ok.round1", "loads.refused-external", "loads.block-ending-at-xFE00", "loads.block-in-vector-table", "loads.with-blkw", "loads.over-reserved-words-holding-data", "executed-between-loads", "os-words-checked"] { need(m, &mut out, k, 20); }
    out
}

fn ssp(s: &mut Simulator) -> Option<Word> { s.read_mem(SP_PORT, MemAccessCtx::omnipotent()).ok() }

fn run30(ctx: &mut Ctx) {
    let n = ctx.tier.pick(1_200, 120_000);
    ctx.cases(0, n, |ctx, rng, idx| {
        let init = if idx & 1 == 0 { MachineInitStrategy::Known { value: rng.u16() } } else { MachineInitStrategy::Seeded { seed: rng.next() } };
        // the machine starts from random flags (so that the frame stack may have been created recording or not) ...
        let mut sim = Simulator::new(SimFlags { machine_init: init, debug_frames: rng.bool(), use_real_traps: rng.bool(), strict: rng.chance(1, 4), ignore_privilege: rng.chance(1, 4) });
        sim.mmap_internal(SP_PORT, InternalRegister::SavedSP).unwrap();
        let mcr0 = sim.mcr().clone();
        let mut hist: Vec<String> = vec![];
        let mut recs: Vec<(u16, Recorder, Vec<u16>)> = vec![];
        let mut bps: Vec<u16> = vec![];
        let mut maps: Vec<u16> = vec![SP_PORT];
        let mut removed_defaults: Vec<u16> = vec![];
        let mut replaced: Vec<u16> = vec![];
        let mut next_id = 3u16;
        let (mut executed, mut configured) = (false, false);
        let nops = 3 + rng.usize(23);
        let case = |hist: &Vec<String>| Json::obj().set("history", Json::Arr(hist.iter().map(|h| Json::from(h.as_str())).collect()));
        for _ in 0..nops {
            match rng.below(15) {
                // ... and may be reset in the middle of the history as well (configuration made so far must survive it)
                14 => { if ctx.no_panic("reset", || case(&hist), || sim.reset()).is_none() { return; } hist.push("reset".into()); ctx.count("histories.with-intermediate-reset"); }
                0 | 1 => { let prog = gen_user_prog(rng, &ProgOpts::default()); if let Ok(ast) = lc3_ensemble::parse::parse_ast(&prog.text) { if let Ok(o) = lc3_ensemble::asm::assemble(ast) { let _ = sim.load_obj_file(&o); hist.push("load program".into()); } } }
                2 | 3 => { let k = rng.below(300); let i0 = sim.instructions_run; let mut c = 0; let _ = crate::monitor::guard(|| sim.run_while(|s| { c += 1; c < 2000 && s.instructions_run - i0 < k })); executed = true; hist.push(format!("run {k}")); }
                4 => { let _ = crate::monitor::guard(|| sim.step_in()); executed = true; hist.push("step_in".into()); }
                5 => { let a = boundary_addr(rng); let v = rng.u16(); sim.mem[a] = Word::new_init(v); sim.reg_file[reg(rng.usize(8))].set(rng.u16()); sim.pc = boundary_addr(rng); hist.push(format!("poke mem[x{a:04X}], a register, PC")); }
                6 => { match rng.below(5) { 0 => sim.flags.strict = !sim.flags.strict, 1 => sim.flags.use_real_traps = !sim.flags.use_real_traps, 2 => sim.flags.debug_frames = !sim.flags.debug_frames, 3 => sim.flags.ignore_privilege = !sim.flags.ignore_privilege, _ => sim.flags.machine_init = if rng.bool() { MachineInitStrategy::Known { value: rng.u16() } } else { MachineInitStrategy::Seeded { seed: rng.next() } } } configured = true; hist.push(format!("flags -> {:?}", sim.flags)); }
                7 => { let a = rng.u16(); sim.breakpoints.insert(Breakpoint::PC(a)); sim.breakpoints.insert(Breakpoint::Reg { reg: reg(1), value: Comparator::Eq(a) }); bps.push(a); configured = true; hist.push(format!("breakpoints on x{a:04X}")); }
                8 => { if let Some(a) = bps.pop() { sim.breakpoints.remove(&Breakpoint::PC(a)); sim.breakpoints.remove(&Breakpoint::Reg { reg: reg(1), value: Comparator::Eq(a) }); hist.push(format!("remove breakpoints x{a:04X}")); } }
                9 => { let r = Recorder::new(next_id); let ports: Vec<u16> = (0..1 + rng.usize(2)).map(|_| 0xFE20 + 2 * rng.below(40) as u16).collect(); if let Ok(id) = sim.device_handler.add_device(r.clone(), &ports) { if id != next_id { ctx.violation("device-id-sequence", format!("add_device returned id {id}, expected {next_id}"), case(&hist)); return; } recs.push((id, r, ports.clone())); next_id += 1; configured = true; hist.push(format!("add device {id} on {ports:04X?}")); } }
                10 => { if !recs.is_empty() && rng.bool() { let i = rng.usize(recs.len()); let (id, _, _) = recs.remove(i); sim.device_handler.remove_device(id); hist.push(format!("remove device {id}")); } else { let kb = BufferedKeyboard::default(); kb.get_buffer().write().unwrap().extend([1u8, 2, 3]); sim.device_handler.set_keyboard(kb); sim.device_handler.set_display(BufferedDisplay::default()); hist.push("set keyboard/display".into()); } }
                11 => { // mostly free ports; sometimes a keyboard/display port or the port of an attached device (a mapping may share its address with a device)
                    let p = match rng.below(6) { 0 => *rng.pick(&[0xFE00u16, 0xFE02, 0xFE04, 0xFE06]), 1 if !recs.is_empty() => recs[rng.usize(recs.len())].2[0], _ => 0xFF00 + 2 * rng.below(60) as u16 }; let r = *rng.pick(&[InternalRegister::PC, InternalRegister::PSR, InternalRegister::MCR, InternalRegister::SavedSP]); if sim.mmap_internal(p, r).is_ok() { maps.push(p); configured = true; hist.push(format!("mmap x{p:04X} = {r:?}")); } }
                12 => {
                    if rng.chance(1, 3) {
                        // remove (and sometimes replace) one of the two default mappings
                        let p = *rng.pick(&[0xFFFCu16, 0xFFFE]);
                        if sim.munmap_internal(p) { removed_defaults.push(p); maps.retain(|x| *x != p); hist.push(format!("munmap default x{p:04X}")); }
                        if rng.bool() && sim.mmap_internal(p, InternalRegister::PC).is_ok() { removed_defaults.retain(|x| *x != p); replaced.push(p); hist.push(format!("mmap x{p:04X} = PC (replacing the default)")); }
                        configured = true;
                    } else if maps.len() > 1 && rng.bool() { let p = maps.pop().unwrap(); sim.munmap_internal(p); hist.push(format!("munmap x{p:04X}")); }
                }
                _ => { let (a, v) = match rng.below(3) { 0 => (0xFFFCu16, rng.u16()), 1 => (SP_PORT, rng.u16()), _ => (0xFE00, 0x4000) }; let _ = sim.write_mem(a, Word::new_init(v), priv_ctx()); hist.push(format!("MMIO write x{a:04X} = x{v:04X}")); }
            }
        }
        for (_, r, _) in &recs { r.take(); }
        ctx.eval();
        let flags = sim.flags;
        let nbp = sim.breakpoints.len();
        if ctx.no_panic("reset", || case(&hist), || sim.reset()).is_none() { return; }
        let mut fresh = Simulator::new(flags);
        fresh.mmap_internal(SP_PORT, InternalRegister::SavedSP).unwrap();
        let c = || case(&hist).set("flags", format!("{flags:?}"));
        for a in 0..=0xFFFFu16 { if sim.mem[a] != fresh.mem[a] { ctx.violation(if a >= 0xFE00 { "reset:io-page-differs" } else { "reset:memory-differs" }, format!("after reset mem[x{a:04X}] = {:?}, a new simulator has {:?}", sim.mem[a], fresh.mem[a]), c()); return; } }
        for i in 0..8 { if sim.reg_file[reg(i)] != fresh.reg_file[reg(i)] { ctx.violation("reset:register-differs", format!("R{i} = {:?} vs {:?}", sim.reg_file[reg(i)], fresh.reg_file[reg(i)]), c()); return; } }
        if sim.pc != fresh.pc { ctx.violation("reset:pc-differs", format!("x{:04X}", sim.pc), c()); return; }
        if sim.psr().get() != fresh.psr().get() { ctx.violation("reset:psr-differs", format!("x{:04X} vs x{:04X}", sim.psr().get(), fresh.psr().get()), c()); return; }
        if ssp(&mut sim) != ssp(&mut fresh) { ctx.violation("reset:saved-sp-differs", format!("{:?} vs {:?}", ssp(&mut sim), ssp(&mut fresh)), c()); return; }
        if sim.frame_stack.len() != 0 || sim.frame_stack.frames().is_some() != flags.debug_frames || sim.frame_stack.frames().is_some_and(|f| !f.is_empty()) { ctx.violation("reset:frames-not-fresh", format!("depth {}, frames() {:?}", sim.frame_stack.len(), sim.frame_stack.frames().map(|f| f.len())), c()); return; }
        if sim.instructions_run != 0 { ctx.violation("reset:instructions_run", format!("{}", sim.instructions_run), c()); return; }
        if sim.hit_halt() || sim.hit_breakpoint() { ctx.violation("reset:pause-status", "hit_halt/hit_breakpoint still set", c()); return; }
        if sim.prefetch_pc() != fresh.prefetch_pc() { ctx.violation("reset:prefetch_pc", format!("x{:04X} vs x{:04X}", sim.prefetch_pc(), fresh.prefetch_pc()), c()); return; }
        // kept configuration
        if sim.flags != flags { ctx.violation("reset:flags-lost", format!("{:?}", sim.flags), c()); return; }
        if sim.breakpoints.len() != nbp || bps.iter().any(|a| !sim.breakpoints.contains(&Breakpoint::PC(*a))) { ctx.violation("reset:breakpoints-lost", format!("{} breakpoints, expected {nbp}", sim.breakpoints.len()), c()); return; }
        if !Arc::ptr_eq(sim.mcr(), &mcr0) { ctx.violation("reset:mcr-handle-replaced", "mcr() is a different Arc after reset", c()); return; }
        replaced.retain(|p| !removed_defaults.contains(p));
        for p in &replaced { sim.pc = 0x4242; let v = sim.read_mem(*p, priv_ctx()).map(|w| w.get()).unwrap_or(0); if v != 0x4242 { ctx.violation("reset:replaced-default-mapping-lost", format!("port x{p:04X} was re-mapped to PC before the reset but reads x{v:04X} afterwards"), c()); return; } sim.pc = 0x3000; ctx.count("resets.with-replaced-default-mapping"); }
        for p in &removed_defaults { if replaced.contains(p) { continue; } if sim.munmap_internal(*p) { ctx.violation("reset:removed-default-mapping-came-back", format!("the default mapping at x{p:04X} was removed before the reset and is mapped again afterwards"), c()); return; } ctx.count("resets.with-removed-default-mapping"); }
        for p in &maps { if replaced.contains(p) || removed_defaults.contains(p) { continue; } if !sim.munmap_internal(*p) { ctx.violation("reset:internal-mapping-lost", format!("port x{p:04X} is no longer mapped"), c()); return; } }
        for (id, r, ports) in &recs {
            r.take();
            if maps.contains(&ports[0]) { ctx.count("resets.with-mapping-on-a-device-port"); continue; } // the register mapped there answers first
            let v = sim.read_mem(ports[0], priv_ctx()).map(|w| w.get()).unwrap_or(0);
            let log = r.take();
            if log.len() != 1 || v != r.answer { ctx.violation("reset:device-detached", format!("device {id} on x{:04X} no longer reached (log {log:?}, read x{v:04X})", ports[0]), c()); return; }
        }
        match sim.device_handler.add_device(Recorder::new(99), &[]) { Ok(id) if id == next_id => {}, other => { ctx.violation("reset:device-id-sequence", format!("next device id {other:?}, expected {next_id}"), c()); return; } }
        ctx.count("resets.checked");
        if executed && configured { ctx.nontrivial(crate::rng::hash_bytes(format!("{hist:?}").as_bytes())); }
        if !recs.is_empty() { ctx.count("resets.with-devices"); }
        if maps.len() > 1 { ctx.count("resets.with-extra-mappings"); }
        if flags.debug_frames { ctx.count("resets.debug-frames-on"); } else if hist.iter().any(|h| h.contains("debug_frames: true")) { ctx.count("resets.debug-frames-turned-off-before"); }
        if nbp > 0 { ctx.count("resets.with-breakpoints"); }
        if ctx.want_sample() && hist.len() < 10 { ctx.sample(c()); }
    });
}
fn guard30(m: &Merged, _t: Tier) -> Vec<String> {
    let mut out = vec![];
    for k in ["resets.with-removed-default-mapping", "resets.with-replaced-default-mapping", "resets.checked", "resets.with-devices", "resets.with-extra-mappings", "resets.debug-frames-on", "resets.with-breakpoints", "histories.with-intermediate-reset"] { need(m, &mut out, k, 50); }
    out
}

struct D { sim: Simulator, ds: BufferedDisplay, kb: BufferedKeyboard }
#[allow(clippy::too_many_arguments)]
fn mk31(text: &str, isr: &str, init: MachineInitStrategy, real: bool, kbd: &[u8], timers: &[(u64, u32, u32, u8, bool)]) -> Option<D> {
    let mut sim = Simulator::new(SimFlags { machine_init: init, use_real_traps: real, ..Default::default() });
    for t in [text, isr] { let ast = lc3_ensemble::parse::parse_ast(t).ok()?; let o = lc3_ensemble::asm::assemble(ast).ok()?; sim.load_obj_file(&o).ok()?; }
    sim.mem[0x0190] = Word::new_init(0x1000); sim.mem[0x0191] = Word::new_init(0x1100);
    let kb = BufferedKeyboard::default(); kb.get_buffer().write().unwrap().extend(kbd.iter().copied()); sim.device_handler.set_keyboard(kb.clone());
    let ds = BufferedDisplay::default(); sim.device_handler.set_display(ds.clone());
    for (i, (seed, lo, hi, prio, half_open)) in timers.iter().enumerate() { let mut t = if *half_open { TimerDevice::new(Some(*seed), *lo..*hi + 1, 0x90 + i as u8, *prio) } else { TimerDevice::new(Some(*seed), *lo..=*hi, 0x90 + i as u8, *prio) }; t.enabled = true; sim.device_handler.add_device(t, &[]).ok()?; }
    Some(D { sim, ds, kb })
}
fn small(d: &D) -> (u16, Vec<Word>, u16, u64, u64, Vec<u8>, usize) { (d.sim.pc, (0..8).map(|i| d.sim.reg_file[reg(i)]).collect(), d.sim.psr().get(), d.sim.instructions_run, d.sim.frame_stack.len(), d.ds.get_buffer().read().unwrap().clone(), d.kb.get_buffer().read().unwrap().len()) }
fn digest(s: &Simulator) -> u64 { let mut h = 0xcbf29ce484222325u64; for a in 0..=0xFFFFu16 { let w = s.mem[a]; h ^= w.get() as u64 | ((w.is_init() as u64) << 16); h = h.wrapping_mul(0x100000001b3); } h }

fn run31(ctx: &mut Ctx) {
    let n = ctx.tier.pick(1_000, 100_000);
    ctx.cases(0, n, |ctx, rng, idx| {
        // seeds (machine and timers) include the edge values 0 and u64::MAX
        let init = if idx % 3 == 0 { MachineInitStrategy::Known { value: rng.u16() } } else { MachineInitStrategy::Seeded { seed: match rng.below(8) { 0 => 0, 1 => u64::MAX, _ => rng.next() } } };
        let fl = rng.chance(1, 5);
        let prog = gen_user_prog(rng, &ProgOpts { faults: fl, ..ProgOpts::default() });
        // half of the service routines read KBDR (in supervisor mode; the queue may well be empty by then: a read nobody answers)
        // two service routines (x1000 for vector x90, x1100 for vector x91), so that it is observable which timer was served
        let rk = rng.bool(); let isr = format!("{}{}", gen_isr(rng, 0x1000, rk), gen_isr(rng, 0x1100, false).replace("ISR_SCRATCH", "ISR2_SCRATCH").replace("ISR_KBDR", "ISR2_KBDR"));
        let kbd: Vec<u8> = (0..prog.kbd_needed + rng.usize(2)).map(|_| rng.next() as u8).collect();
        let nt = rng.usize(3);
        let timers: Vec<(u64, u32, u32, u8, bool)> = (0..nt).map(|i| { let lo = 15 + rng.below(40) as u32; (match rng.below(8) { 0 => 0, 1 => u64::MAX, _ => rng.next() }, lo, if rng.bool() { lo } else { lo + rng.below(30) as u32 }, 2 + 2 * i as u8, rng.bool()) }).collect();
        // sometimes the timers tie: same priority, same exact period, so both request on the same step (which one wins must not vary between runs)
        let timers: Vec<(u64, u32, u32, u8, bool)> = if timers.len() == 2 && rng.chance(1, 3) { let t0 = timers[0]; vec![(t0.0, t0.1, t0.1, 4, false), (timers[1].0, t0.1, t0.1, 4, false)] } else { timers };
        let real = rng.bool();
        let (Some(mut a), Some(mut b)) = (mk31(&prog.text, &isr, init, real, &kbd, &timers), mk31(&prog.text, &isr, init, real, &kbd, &timers)) else { ctx.count("not-assembled"); return };
        let case = || Json::obj().set("program", prog.text.as_str()).set("init", format!("{init:?}")).set("timers", format!("{timers:?}")).set("kbd", format!("{kbd:?}")).set("real_traps", real);
        if digest(&a.sim) != digest(&b.sim) || small(&a) != small(&b) { ctx.violation("construction-not-reproducible", "two constructions with the same seed differ before any step", case()); return; }
        let by_run = idx % 2 == 1;
        let mut steps = 0u64; let mut entries = 0u64;
        // at some point both machines get the same disturbance: the program is loaded again over the running image
        // (its .blkw words now cover initialized data), or the machine is reset (devices are io_reset) and reloaded
        let disturb_at = if rng.chance(1, 2) { Some(5 + rng.below(200)) } else { None };
        let disturb_reset = rng.bool();
        let obj = lc3_ensemble::parse::parse_ast(&prog.text).ok().and_then(|ast| lc3_ensemble::asm::assemble(ast).ok());
        let isr_obj = lc3_ensemble::parse::parse_ast(&isr).ok().and_then(|ast| lc3_ensemble::asm::assemble(ast).ok());
        let mut disturbed = false;
        let cap = 3000;
        while steps < cap {
            if let (Some(k), false, Some(o), Some(io)) = (disturb_at, disturbed, &obj, &isr_obj) {
                if steps >= k {
                    disturbed = true;
                    for m in [&mut a, &mut b] {
                        if disturb_reset { m.sim.reset(); let _ = m.sim.load_obj_file(io); m.sim.mem[0x0190] = Word::new_init(0x1000); m.sim.mem[0x0191] = Word::new_init(0x1100); m.kb.get_buffer().write().unwrap().extend(kbd.iter().copied()); }
                        let _ = m.sim.load_obj_file(o);
                        if disturb_reset { m.sim.pc = 0x3000; }
                    }
                    ctx.count(if disturb_reset { "runs.reset-and-reload-midway" } else { "runs.reload-midway" });
                    if small(&a) != small(&b) || digest(&a.sim) != digest(&b.sim) { ctx.violation(if disturb_reset { "state-differs:after-reset" } else { "state-differs:after-reload" }, format!("the two machines differ right after the same {} at step {steps}", if disturb_reset { "reset + reload" } else { "reload" }), case()); return; }
                }
            }
            let seg = if by_run { 1 + rng.below(40) } else { 1 };
            let mut ra = Ok(());
            let mut a_done = false;
            let mut done_steps = 0u64;
            for _ in 0..seg {
                let (d0, i0, pc0) = (a.sim.frame_stack.len(), a.sim.instructions_run, a.sim.pc);
                let w0 = a.sim.mem[pc0].get();
                ra = a.sim.step_in().map_err(|e| err_kind(&e));
                steps += 1; done_steps += 1;
                if a.sim.frame_stack.len() > d0 && a.sim.instructions_run == i0 && ra.is_ok() && !(w0 == 0xF025 && a.sim.pc == pc0) { entries += 1; }
                if ra.is_err() { a_done = true; break; }
                if !real && w0 == 0xF025 && a.sim.pc == pc0 && a.sim.instructions_run == i0 && a.sim.frame_stack.len() == d0 { a_done = true; break; }
                if real && a.sim.observer.get_mem_accesses(0xFFFE).written() { a_done = true; break; }
            }
            // the second machine takes the same number of boundaries, either by single steps or by one run_while call
            let rb = if by_run { let mut c = 0u64; let k = done_steps; b.sim.run_while(move |_| { c += 1; c <= k }).map_err(|e| err_kind(&e)) } else { b.sim.step_in().map_err(|e| err_kind(&e)) };
            ctx.eval();
            if ra != rb { ctx.violation("results-differ", format!("step {steps}: {ra:?} vs {rb:?}"), case()); return; }
            if small(&a) != small(&b) { ctx.violation(if by_run { "state-differs:segmented" } else { "state-differs:step" }, format!("after step {steps}: {:?} vs {:?}", small(&a), small(&b)), case()); return; }
            if steps % 64 < seg && digest(&a.sim) != digest(&b.sim) { ctx.violation("memory-differs", format!("memory digests differ after step {steps}"), case()); return; }
            if a_done { break; }
        }
        if digest(&a.sim) != digest(&b.sim) { ctx.violation("memory-differs", "final memory digests differ", case()); return; }
        if steps >= 20 && (entries > 0 || matches!(init, MachineInitStrategy::Seeded { .. })) { ctx.nontrivial(crate::rng::hash_bytes(format!("{}{timers:?}{init:?}", prog.text).as_bytes())); }
        ctx.count_n("steps.compared", steps);
        if entries > 0 { ctx.count("runs.with-timer-interrupts"); }
        if entries > 0 && timers.len() == 2 && timers[0].3 == timers[1].3 { ctx.count("runs.with-tied-timers"); }
        if entries > 0 && timers.iter().any(|t| t.4 && t.2 > t.1) { ctx.count("runs.with-half-open-timer-range"); }
        ctx.count(if by_run { "runs.segmented" } else { "runs.stepwise" });
        ctx.count(match init { MachineInitStrategy::Known { .. } => "init.known", MachineInitStrategy::Seeded { seed: 0 } => "init.seeded-with-0", _ => "init.seeded" });
        if entries > 0 && timers.iter().any(|t| t.0 == 0 && t.2 > t.1) { ctx.count("runs.with-timer-seed-0"); }
        if ctx.want_sample() && nt > 0 && prog.text.len() < 700 { ctx.sample(case().set("steps", steps).set("timer_entries", entries)); }
    });
    known_fill(ctx);
}
/// C31's last sentence: a known strategy puts the value, uninitialized, in every register and every word outside the OS image and the I/O page
fn known_fill(ctx: &mut Ctx) {
    let Some(os) = os_reference() else { ctx.notes.push("could not read or assemble /repo/src/os.asm".into()); return };
    ctx.cases(1, 64, |ctx, rng, idx| {
        let value = match idx % 4 { 0 => 0, 1 => 0xFFFF, _ => rng.u16() };
        let flags = SimFlags { strict: idx & 4 != 0, use_real_traps: idx & 8 != 0, debug_frames: idx & 16 != 0, ignore_privilege: idx & 32 != 0, machine_init: MachineInitStrategy::Known { value } };
        ctx.eval();
        let case = || Json::obj().set("flags", format!("{flags:?}"));
        let Some(mut sim) = ctx.no_panic("Simulator::new", case, || Simulator::new(flags)) else { return };
        for round in 0..2 {
            for a in 0..0xFE00u16 { if !os.contains_key(&a) { let m = sim.mem[a]; if m.get() != value || m.is_init() { ctx.violation("known-fill-memory", format!("{}: mem[x{a:04X}] = {m:?}, expected uninitialized x{value:04X}", if round == 0 { "fresh machine" } else { "after reset" }), case()); return; } } }
            for i in 0..8 { let m = sim.reg_file[reg(i)]; if m.get() != value || m.is_init() { ctx.violation("known-fill-register", format!("R{i} = {m:?}, expected uninitialized x{value:04X}"), case()); return; } }
            if round == 0 { for a in [0x3000u16, 0xFDFF, 0x0500, 0x8000] { sim.mem[a] = Word::new_init(!value); } sim.reg_file[reg(3)].set(!value); if ctx.no_panic("reset", case, || sim.reset()).is_none() { return; } }
        }
        ctx.count("known-fill.machines");
        ctx.nontrivial(crate::rng::hash64(&[value as u64, idx, 31]));
    });
}
fn guard31(m: &Merged, _t: Tier) -> Vec<String> {
    let mut out = vec![];
    need(m, &mut out, "known-fill.machines", 16);
    for k in ["runs.with-timer-interrupts", "runs.with-half-open-timer-range", "runs.with-tied-timers", "runs.segmented", "runs.stepwise", "init.known", "init.seeded", "init.seeded-with-0", "runs.with-timer-seed-0", "runs.reset-and-reload-midway", "runs.reload-midway"] { need(m, &mut out, k, 30); }
    need(m, &mut out, "steps.compared", 50_000);
    out
}

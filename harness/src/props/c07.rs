//! C07 Every word disassembles to text that reassembles to the same word — exhaustive.
use super::*;
use crate::json::Json;
use crate::refasm::*;
use lc3_ensemble::asm::assemble;
use lc3_ensemble::ast::asm::disassemble_line;
use lc3_ensemble::parse::parse_ast;

pub fn prop() -> Prop {
    Prop {
        id: "C07", title: "Every word disassembles to text that reassembles to the same word", level: "exploration",
        rule: "Exhaustive: every 16-bit word w is disassembled (disassemble_line), printed with Display, wrapped in .orig/.end at each of the \
               origins x0000, x3000, xFDFF, parsed and assembled with the crate; the single resulting word must equal w. The printed form is \
               also checked against the reference decoder: .fill for w < x0200 and for non-instructions, alias names for RET/GETC/OUT|PUTC/PUTS/IN/PUTSP/HALT. \
               Distinct = distinct (word, origin) pairs, all non-trivial.",
        assumptions: &["the reference layout table is correct", "the parser/assembler are the crate's own (this is a self-consistency round trip)"],
        exhaustive: always, shards: |_| 8, run, guard,
        level_text: "Exhaustive runtime round trip: every word is disassembled, printed, re-parsed and re-assembled by the real code at three origins; complete for all 65536 words at those origins.",
        level_note: "Uses the crate's own parser/assembler for the return path (their correctness is decided by C01/C03/C05); the expected printed form comes from the reference layout table.",
        technique: "exhaustive round-trip monitoring (disassemble -> print -> parse -> assemble)",
        ..Prop::base("C07", "")
    }
}

const ORIGINS: [u16; 3] = [0x0000, 0x3000, 0xFDFF];

fn expected_head(w: u16) -> &'static str {
    if w < 0x0200 { return ".fill"; }
    match decode_ref(w) {
        Err(_) => ".fill",
        Ok(RI::Jmp(7)) => "RET",
        Ok(RI::Trap(0x20)) => "GETC",
        Ok(RI::Trap(0x21)) => "PUTC|OUT",
        Ok(RI::Trap(0x22)) => "PUTS",
        Ok(RI::Trap(0x23)) => "IN",
        Ok(RI::Trap(0x24)) => "PUTSP",
        Ok(RI::Trap(0x25)) => "HALT",
        Ok(RI::Br(0, _)) => "NOP",
        Ok(RI::Br(..)) => "BR",
        Ok(RI::Add(..)) => "ADD", Ok(RI::And(..)) => "AND", Ok(RI::Ld(..)) => "LD", Ok(RI::St(..)) => "ST",
        Ok(RI::Jsr(..)) => "JSR", Ok(RI::Jsrr(..)) => "JSRR", Ok(RI::Ldr(..)) => "LDR", Ok(RI::Str(..)) => "STR",
        Ok(RI::Rti) => "RTI", Ok(RI::Not(..)) => "NOT", Ok(RI::Ldi(..)) => "LDI", Ok(RI::Sti(..)) => "STI",
        Ok(RI::Jmp(_)) => "JMP", Ok(RI::Lea(..)) => "LEA", Ok(RI::Trap(_)) => "TRAP",
    }
}

fn run(ctx: &mut Ctx) {
    let r = ctx.my_slice(65536);
    for w in r {
        let w = w as u16;
        ctx.cur = (0, w as u64);
        let case = || Json::obj().set("word", format!("x{w:04X}"));
        let Some(text) = ctx.no_panic("disassemble", case, || disassemble_line(w).to_string()) else { continue };
        let head = text.split_whitespace().next().unwrap_or("").to_string();
        let exp = expected_head(w);
        let cls = if exp.starts_with('.') { "fill" } else { exp };
        let head_ok = exp.split('|').any(|e| if e == "BR" { head.to_uppercase().starts_with("BR") } else { head.eq_ignore_ascii_case(e) });
        if !head_ok {
            ctx.violation(&format!("disassembly-form:{cls}"), format!("x{w:04X} disassembles to {text:?}, expected a {exp} statement"), case());
        }
        ctx.count(&format!("printed.{cls}"));
        for o in ORIGINS {
            ctx.eval();
            ctx.nontrivial_enum(1);
            let src = format!(".orig x{o:04X}\n{text}\n.end\n");
            let case = || Json::obj().set("word", format!("x{w:04X}")).set("source", src.clone());
            let res = ctx.no_panic("reassemble", case, || {
                let ast = parse_ast(&src).map_err(|e| format!("parse error: {e:?}"))?;
                let obj = assemble(ast).map_err(|e| format!("assemble error: {:?}", e.kind))?;
                Ok::<Vec<(u16, Option<u16>)>, String>(obj.addr_iter().collect())
            });
            let Some(res) = res else { continue };
            match res {
                Ok(words) if words == vec![(o, Some(w))] => {}
                Ok(words) => ctx.violation(&format!("reassembles-to-other-word:{cls}"), format!("x{w:04X} -> {text:?} -> {words:X?} at origin x{o:04X}"), case()),
                Err(e) => ctx.violation(&format!("disassembly-does-not-reassemble:{cls}"), format!("x{w:04X} -> {text:?}: {e}"), case()),
            }
        }
        if ctx.want_sample() && w % 13001 == 5 { ctx.sample(Json::obj().set("word", format!("x{w:04X}")).set("text", text.clone()).set("origins", "x0000,x3000,xFDFF")); }
    }
}

fn guard(m: &Merged, _t: Tier) -> Vec<String> {
    let mut out = vec![];
    if m.evaluations != 3 * 65536 { out.push(format!("evaluations {} != 3*65536", m.evaluations)); }
    for k in ["fill", "RET", "GETC", "PUTC|OUT", "PUTS", "IN", "PUTSP", "HALT", "BR", "ADD", "AND", "LD", "ST", "JSR", "JSRR", "LDR", "STR", "RTI", "NOT", "LDI", "STI", "JMP", "LEA", "TRAP"] {
        need(m, &mut out, &format!("printed.{k}"), 1);
    }
    out
}

//! C15 Initialization tracking of words is sound (uses the Word hook).
use super::*;
use crate::json::Json;
use crate::rng::Rng;
use lc3_ensemble::sim::mem::Word;

pub fn prop() -> Prop {
    Prop {
        id: "C15", title: "Initialization tracking of words is sound", level: "exploration",
        rule: "Operand pairs (data, init mask) over full, empty, single-bit, byte, nibble-pattern and random masks and boundary/random data; for each pair the uninitialized bits of both operands are re-randomized 64 times \
               (exhaustively when the pair has at most 6 uninitialized bits) and +, -, &, ! (and the += / -= forms with u16/i16 right-hand sides) are evaluated on the real Word type. Oracle: for all results r_j, r_k of one pair, \
               (r_j.data ^ r_k.data) & (r_j.init | r_k.init) == 0, i.e. a bit reported initialized has the same value for every choice of the uninitialized operand bits; fully initialized operands give a full mask and the wrapping 16-bit value; \
               NOT preserves the mask. Masks are built and read through the cfg-guarded hook (Word::verif_from_parts / verif_init_mask) and cross-checked against masks built through the public API alone. \
               Non-trivial = pair with at least one uninitialized bit; distinct = (op, data, masks).",
        assumptions: &["hook Word::verif_init_mask/verif_from_parts (cfg endorpersand_lc3_ensemble_verif) exposes the private mask faithfully; cross-checked with a public-API construction"],
        run, guard,
        stages: || vec![st("miri", "", 1_500, 4, 1800)],
        level_text: "Runtime oracle check over hundreds of thousands (quick) to tens of millions (thorough) of operand pairs with re-randomized uninitialized bits; exhaustive over the uninitialized bits when there are few.",
        level_note: "Sampled over the 2^64 (data, mask) pair space, steered to mask classes; relies on one additive hook.",
        technique: "metamorphic oracle (re-randomize don't-care bits) through a state hook",
        ..Prop::base("C15", "")
    }
}

fn gen_mask(rng: &mut Rng) -> (u16, &'static str) {
    match rng.below(9) { 0 => (0xFFFF, "full"), 1 => (0, "empty"), 2 => (1 << rng.below(16), "single-bit"), 3 => (!(1u16 << rng.below(16)), "all-but-one"), 4 => (0x00FF, "low-byte"), 5 => (0xFF00, "high-byte"), 6 => (*rng.pick(&[0x0F0F, 0xF0F0, 0x5555, 0xAAAA, 0x8000, 0x7FFF, 0x0001]), "pattern"), _ => (rng.u16(), "random") }
}
fn gen_data(rng: &mut Rng) -> u16 { match rng.below(6) { 0 => 0, 1 => 0xFFFF, 2 => 1, 3 => 0x8000, 4 => 0x7FFF, _ => rng.u16() } }
fn w(d: u16, m: u16) -> Word { Word::verif_from_parts(d, m) }
/// the same word built through the public API only: !( !(uninit(u) & init(!I)) & init(!v | !I) )
fn w_public(d: u16, m: u16) -> Word {
    let mut u = d;
    let a = Word::new_uninit(&mut u) & Word::new_init(!m);
    !((!a) & Word::new_init(!d | !m))
}

fn run(ctx: &mut Ctx) {
    let n = ctx.tier.pick(120_000, 12_000_000);
    ctx.cases(0, n, |ctx, rng, _| {
        let (lm, lc) = gen_mask(rng); let (rm, rc) = gen_mask(rng);
        let (ld, rd) = (gen_data(rng), gen_data(rng));
        let op = rng.below(6);
        let opname = ["add", "sub", "and", "not", "add-assign", "sub-assign"][op as usize];
        // hook vs public construction
        if rng.chance(1, 16) {
            let p = w_public(ld, lm);
            if p.get() != ld || p.verif_init_mask() != lm { ctx.violation("public-construction-disagrees-with-hook", format!("public-API word for (x{ld:04X}, mask x{lm:04X}) = (x{:04X}, x{:04X})", p.get(), p.verif_init_mask()), Json::obj().set("data", ld).set("mask", lm)); return; }
            ctx.count("hook-cross-checked");
        }
        let unl = (!lm).count_ones(); let unr = if op == 3 { 0 } else { (!rm).count_ones() };
        let exhaustive = unl + unr <= 6;
        let variants: u64 = if exhaustive { 1 << (unl + unr) } else { 64 };
        let spread = |bits: u64, mask_un: u16| -> u16 { let mut out = 0u16; let mut k = 0; for b in 0..16 { if mask_un >> b & 1 == 1 { if bits >> k & 1 == 1 { out |= 1 << b; } k += 1; } } out };
        let mut first: Option<Word> = None;
        ctx.eval();
        if unl + unr > 0 { ctx.nontrivial(crate::rng::hash64(&[op, ld as u64, lm as u64, rd as u64, rm as u64])); }
        let case = |l: u16, r: u16, res: Word| Json::obj().set("op", opname).set("lhs", format!("data x{l:04X} init x{lm:04X}")).set("rhs", format!("data x{r:04X} init x{rm:04X}")).set("result", format!("data x{:04X} init x{:04X}", res.get(), res.verif_init_mask()));
        for v in 0..variants {
            let (lb, rb) = if exhaustive { (v & ((1 << unl) - 1), v >> unl) } else { (rng.next(), rng.next()) };
            let l = (ld & lm) | spread(lb, !lm);
            let r = (rd & rm) | spread(rb, !rm);
            let (a, b) = (w(l, lm), w(r, rm));
            let res = match op { 0 => a + b, 1 => a - b, 2 => a & b, 3 => !a, 4 => { let mut x = a; if rm == 0xFFFF && rng.bool() { if rng.bool() { x += r; } else { x += r as i16; } } else { x += b; } x } _ => { let mut x = a; if rm == 0xFFFF && rng.bool() { if rng.bool() { x -= r; } else { x -= r as i16; } } else { x -= b; } x } };
            // fully initialized operands: exact value and full mask
            if lm == 0xFFFF && (rm == 0xFFFF || op == 3) {
                let want = match op { 0 | 4 => l.wrapping_add(r), 1 | 5 => l.wrapping_sub(r), 2 => l & r, _ => !l };
                if res.get() != want || !res.is_init() || res.verif_init_mask() != 0xFFFF { ctx.violation(&format!("initialized-operands-wrong-result:{opname}"), format!("x{l:04X} {opname} x{r:04X} = x{:04X} (mask x{:04X}), expected x{want:04X} fully initialized", res.get(), res.verif_init_mask()), case(l, r, res)); return; }
                ctx.count(&format!("fully-initialized.{opname}"));
            }
            if op == 3 && res.verif_init_mask() != lm { ctx.violation("not-changes-mask", format!("!word changed the mask from x{lm:04X} to x{:04X}", res.verif_init_mask()), case(l, r, res)); return; }
            match first {
                None => first = Some(res),
                Some(f) => {
                    let claimed = f.verif_init_mask() | res.verif_init_mask();
                    let diff = (f.get() ^ res.get()) & claimed;
                    if diff != 0 {
                        ctx.violation(&format!("unsound-init-bit:{opname}:{lc}-{rc}"), format!("bit(s) x{diff:04X} are reported initialized but their value depends on uninitialized operand bits (first result data x{:04X} init x{:04X})", f.get(), f.verif_init_mask()), case(l, r, res)); return;
                    }
                }
            }
        }
        ctx.count(&format!("pairs.{opname}"));
        ctx.count(&format!("mask-class.{lc}"));
        if exhaustive && unl + unr > 0 { ctx.count("pairs.exhaustive-over-uninit-bits"); }
        if let Some(f) = first { if f.verif_init_mask() != 0 && f.verif_init_mask() != 0xFFFF { ctx.count(&format!("partial-result-mask.{opname}")); } if ctx.want_sample() && op == 2 && f.verif_init_mask() != 0 && f.verif_init_mask() != 0xFFFF { ctx.sample(case(ld, rd, f)); } }
    });
}

fn guard(m: &Merged, _t: Tier) -> Vec<String> {
    let mut out = vec![];
    for o in ["add", "sub", "and", "not", "add-assign", "sub-assign"] { need(m, &mut out, &format!("pairs.{o}"), 1000); need(m, &mut out, &format!("fully-initialized.{o}"), 10); }
    for c in ["full", "empty", "single-bit", "all-but-one", "low-byte", "high-byte", "pattern", "random"] { need(m, &mut out, &format!("mask-class.{c}"), 100); }
    for k in ["pairs.exhaustive-over-uninit-bits", "partial-result-mask.and", "partial-result-mask.not", "hook-cross-checked"] { need(m, &mut out, k, 100); }
    out
}

//! Property registry: one module per property.
use crate::monitor::{Ctx, Merged, Tier};

pub struct Prop {
    pub id: &'static str,
    pub title: &'static str,
    pub level: &'static str,
    pub rule: &'static str,
    pub assumptions: &'static [&'static str],
    pub exhaustive: fn(Tier) -> bool,
    pub shards: fn(Tier) -> u64,
    pub run: fn(&mut Ctx),
    /// returns descriptions of unmet vacuity conditions
    pub guard: fn(&Merged, Tier) -> Vec<String>,
    pub also_release: bool,
    pub abort_is_violation: bool,
    /// MANIFEST: what assurance this check gives
    pub level_text: &'static str,
    /// MANIFEST: trusted base / assumptions in one line
    pub level_note: &'static str,
    /// MANIFEST: deciding method
    pub technique: &'static str,
    pub design_ref: &'static str,
    /// supplementary sanitizer stages (thorough tier)
    pub stages: fn() -> Vec<crate::stages::StageSpec>,
}

fn noop(_: &mut Ctx) {}
fn noguard(_: &Merged, _: Tier) -> Vec<String> { vec![] }
fn nostages() -> Vec<crate::stages::StageSpec> { vec![] }
pub fn st(name: &'static str, phases: &'static str, case_cap: u64, shards: u64, timeout_s: u64) -> crate::stages::StageSpec { crate::stages::StageSpec { name, phases, case_cap, shards, timeout_s } }
impl Prop {
    pub fn base(id: &'static str, title: &'static str) -> Prop {
        Prop {
            id, title, level: "exploration", rule: "", assumptions: &[], exhaustive: never, shards: std_shards,
            run: noop, guard: noguard, also_release: false, abort_is_violation: false,
            level_text: "", level_note: "", technique: "", design_ref: "DESIGN.md section 4", stages: nostages,
        }
    }
}

pub fn std_shards(t: Tier) -> u64 { match t { Tier::Quick => 4, Tier::Thorough => 16 } }
pub fn never(_: Tier) -> bool { false }
pub fn always(_: Tier) -> bool { true }

/// helper for vacuity guards: require counter >= min
pub fn need(m: &Merged, out: &mut Vec<String>, key: &str, min: u64) {
    let v = m.c(key);
    if v < min { out.push(format!("{key}={v} < {min}")); }
}
pub fn need_prefix(m: &Merged, out: &mut Vec<String>, prefix: &str, min: u64) {
    let v = m.cp(prefix);
    if v < min { out.push(format!("{prefix}*={v} < {min}")); }
}

pub mod c01;
pub mod c02;
pub mod c03;
pub mod c04;
pub mod c05;
pub mod c06;
pub mod c07;
pub mod c08;
pub mod c09;
pub mod c10;
pub mod c11;
pub mod c13;
pub mod c14;
pub mod c15;
pub mod c16;
pub mod c17;
pub mod c19;
pub mod c20;
pub mod c21;
pub mod c23;
pub mod c25;
pub mod c26;
pub mod c27;
pub mod c29;
pub mod c32;
pub mod c33;
pub mod c34;
pub mod c35;
pub mod c36;

pub fn all() -> Vec<Prop> {
    vec![c01::prop(), c02::prop(), c03::prop(), c04::prop(), c05::prop(), c06::prop(), c07::prop(), c08::prop(), c09::prop(), c10::prop(), c11::prop11(), c11::prop12(), c13::prop(), c14::prop(), c15::prop(), c16::prop(), c17::prop17(), c17::prop18(), c19::prop(), c20::prop20(), c21::prop(), c20::prop22(), c23::prop23(), c23::prop24(), c25::prop(), c26::prop(), c27::prop27(), c27::prop28(), c29::prop29(), c29::prop30(), c29::prop31(), c32::prop(), c33::prop(), c34::prop(), c35::prop(), c36::prop()]
}
pub fn find(id: &str) -> Option<Prop> { all().into_iter().find(|p| p.id == id) }

/// Reason shown in MANIFEST.not_applicable for a property without a registered check.
pub fn not_claimed(_id: &str) -> String {
    "not claimed yet: the monitor for this property is still being built (runtime monitoring does apply to it; see DESIGN.md section 4)".to_string()
}
/// Commits in /repo that add guarded hooks.
pub fn hook_commits() -> Vec<String> { vec!["ed27ce7".to_string()] }

//! C04 Parsing never panics and its errors point inside the input.
use super::*;
use crate::gen::*;
use crate::json::Json;
use crate::rng::Rng;
use lc3_ensemble::err::Error as _;
use lc3_ensemble::parse::parse_ast;

pub fn prop() -> Prop {
    Prop {
        id: "C04", title: "Parsing never panics and its errors point inside the input", level: "fault_enumeration",
        rule: "Phase 0: targeted escape/literal table (backslash followed by end of input, LF, CRLF, CR, every ASCII byte and 2/3/4-byte UTF-8 characters, inside closed and unclosed literals; \
               string literals of 65533..65537 bytes; 1..40-digit numbers in every notation). Phase 1: token soup over an alphabet rich in quotes, backslashes, line ends, lone CR, non-ASCII letters/digits, \
               emoji, NUL and keyword/directive fragments. Phase 2: rendered valid programs with 1-6 byte- or char-level mutations (delete, insert, replace, duplicate a slice, truncate). \
               Every input goes through parse_ast inside catch_unwind; a panic (or a shard killed by a signal) is a violation, and every returned error's span must satisfy start <= end <= len. \
               Runs in the verif profile (debug assertions + overflow checks) and in plain release. Non-trivial = every input; distinct = distinct input strings.",
        assumptions: &["x86-64; two build profiles (verif, release)", "panic = unwind, so a panic is observable by catch_unwind; aborts are observed as shard deaths"],
        also_release: true, abort_is_violation: true, run, guard,
        stages: || vec![st("miri", "0,1,2", 250, 4, 2400), st("asan", "", 20_000, 4, 1200)],
        level_text: "Fault enumeration at run time: a complete table of escape/literal edge cases plus hundreds of thousands (quick) to tens of millions (thorough) of hostile and mutated inputs through the real parser under a panic/abort monitor and a span-bounds oracle, in two build profiles; thorough adds Miri and ASan stages on the same inputs.",
        level_note: "Sampling outside the targeted table; 'never panics' is decided only for the inputs generated and the two profiles run.",
        technique: "panic/abort monitor + span-bounds oracle over hostile generated inputs (fuzz-style), two profiles",
        ..Prop::base("C04", "")
    }
}

pub fn check_input(ctx: &mut Ctx, input: &str, class: &str) {
    ctx.eval();
    ctx.nontrivial_str(input);
    let case = || Json::obj().set("input", if input.len() > 600 { format!("{}...[{} bytes]", &input.chars().take(200).collect::<String>(), input.len()) } else { input.to_string() }).set("class", class);
    let Some(res) = ctx.no_panic("parse_ast", case, || parse_ast(input)) else { return };
    match res {
        Ok(v) => { ctx.count(&format!("{class}.ok")); let _ = v; }
        Err(e) => {
            ctx.count(&format!("{class}.err"));
            let msg = e.to_string();
            ctx.count(&format!("message.{}", msg.chars().take(40).collect::<String>()));
            match ctx.no_panic("ParseErr::span", case, || e.span()) {
                Some(Some(sp)) => {
                    for s in sp.iter() {
                        if !(s.start <= s.end && s.end <= input.len()) {
                            ctx.violation("error-span-outside-input", format!("error {msg:?} has span {s:?} for an input of {} bytes", input.len()), case());
                        } else if !input.is_char_boundary(s.start) || !input.is_char_boundary(s.end) { ctx.count("span-not-on-char-boundary"); }
                    }
                    let _ = ctx.no_panic("ErrSpan::first", case, || sp.first());
                    let _ = ctx.no_panic("ParseErr::help", case, || e.help().map(|h| h.len()));
                }
                Some(None) => ctx.violation("error-without-span", format!("error {msg:?} carries no span"), case()),
                None => {}
            }
        }
    }
}

fn escape_table() -> Vec<String> {
    let mut v: Vec<String> = vec![];
    let mut followers: Vec<String> = vec!["".into(), "\n".into(), "\r\n".into(), "\r".into()];
    for b in 0u8..128 { followers.push((b as char).to_string()); }
    for c in ['é', 'ß', 'λ', 'Ж', '中', '€', '\u{800}', '\u{ffff}', '🦀', '\u{10ffff}', '\u{80}', '\u{7ff}'] { followers.push(c.to_string()); }
    for f in &followers {
        for pre in ["", "ab", "é"] {
            v.push(format!(".stringz \"{pre}\\{f}"));            // unclosed, escape last
            v.push(format!(".stringz \"{pre}\\{f}\""));          // closed right after
            v.push(format!(".stringz \"{pre}\\{f}x\"\n.end"));  // more text after
            v.push(format!("\"{pre}\\{f}"));
        }
    }
    for tail in ["\\", "\\\\", "\\\\\\", "\\\"", "\\\"\\", "\"\\", "\"\"\\"] { v.push(format!(".stringz \"{tail}")); v.push(format!(".stringz \"a{tail}\nHALT")); }
    // characters whose upper- or lower-casing changes their UTF-8 length (the lexer and parser fold case in several places),
    // in every token position and at the very end of the input
    for c in ['\u{149}', '\u{1f0}', '\u{390}', '\u{fb01}', '\u{131}', '\u{17f}', '\u{130}', '\u{212a}', 'ß', '\u{1e9e}', '\u{587}'] {
        for pre in [".", ".o", ".orig", ".fil", "", "R", "r", "x", "#", "BR", "br", "ADD", "LABEL", "TRAP x", "\""] {
            v.push(format!("{pre}{c}"));
            v.push(format!("{pre}{c}{c}{c}"));
            v.push(format!(".orig x3000\n{pre}{c}"));
            v.push(format!(".orig x3000\n{pre}{c} 5\n.end"));
            v.push(format!("{pre}{c}a{c} R0, R0, #1 ; {c}"));
        }
    }
    // huge literals
    for n in [65533usize, 65534, 65535, 65536, 65537, 70000] {
        v.push(format!(".stringz \"{}\"", "a".repeat(n)));
        v.push(format!(".stringz \"{}", "a".repeat(n)));
        v.push(format!(".orig x3000\n.stringz \"{}\"\n.end", "é".repeat(n / 2)));
        v.push(format!(".stringz \"{}\"", "\\n".repeat(n)));
    }
    // long lines of multi-byte characters in every alignment around the sizes an implementation might cut or buffer at
    for limit in [32_767usize, 32_768, 65_535, 65_536, 131_070, 131_071, 131_072, 262_143, 262_144] {
        for (ch, w) in [("é", 2usize), ("中", 3), ("🦀", 4)] {
            for pre in 0..w {
                let body = format!("{}{}", "a".repeat(pre), ch.repeat(limit / w + 6));
                v.push(format!(".stringz \"{body}\""));
                if pre == 0 { v.push(format!("; {body}\nHALT")); v.push(format!(".stringz \"{body}")); }
            }
        }
    }
    // literals whose unescaped text reaches the 65535-byte limit, with an escape in front that shifts multi-byte text out of step
    for esc in ["\\n", "\\\"", "\\t\\0\\\\", "\\q"] {
        for (ch, w) in [("é", 2usize), ("世", 3), ("🦀", 4)] {
            for pre in 0..w { v.push(format!(".stringz \"{esc}{}{}\"", "a".repeat(pre), ch.repeat(65_535 / w + 40))); }
        }
    }
    // numbers
    for n in 1..=40usize {
        let d = "9".repeat(n);
        for p in ["", "#", "-", "#-", "x", "x-", "X", "##", "-#", "#x", "x#", "R", "r", "-x", "--"] { v.push(format!(".fill {p}{d}")); v.push(format!("{p}{d}")); v.push(format!("ADD R0, R0, {p}{d}")); }
    }
    for s in ["#", "#-", "-", "x", "X", "x-", "##", "###-1", "-#1", "-##", "#-#", ".", "..", ".orig", ".ORIG", ".orig .orig", ":", "::", ",", ",,", "A:", "A::", "A: :", ";", ";\r", "\r", "\r\r\n", "\n\r", "\0", "R", "R8", "R256", "R99999999999999999999",
              "ADD", "ADD R0", "ADD R0,", "ADD R0,R0", "ADD R0,R0,", "ADD R0,R0,R0,", "ADD R0 R0 R0", "ADD,", "BR", "BRpz x", "NOP NOP", "NOP ,", "TRAP", "TRAP -1", "TRAP x100", ".blkw", ".blkw 0", ".blkw -1", ".stringz", ".stringz 5", ".stringz \"a\" \"b\"",
              ".fill", ".fill \"a\"", ".external", ".external 5", ".external ADD", "LABEL", "LABEL LABEL", "LABEL\nLABEL\n", "LABEL:", "é", "éé ADD R0,R0,R0", "x", "xg", "٣", "#٣", "x٣", "R٣", "-٣", "A٣ HALT", "ＡＤＤ R0,R0,R0", "\u{feff}.orig x3000", "HALT\u{2028}HALT", "\t\t\t", "   ", "\"", "\"\"", "\"\n\"",
              ".end.end", ".end .end", "HALT HALT", "HALT;HALT\nHALT", "HALT\r\nHALT\rHALT"] { v.push(s.to_string()); }
    v
}

const SOUP: &[&str] = &["\"", "\"", "\\", "\\", "\n", "\n", "\r\n", "\r", " ", "\t", ",", ":", ";", ".", "#", "-", "x", "X", "R", "r", "0", "1", "7", "8", "9", "65535", "65536", "-32768", "-32769", "xFFFF", "x10000",
    "ADD", "and", "NoT", "BR", "BRnzp", "BRpz", "JMP", "JSR", "JSRR", "LD", "LDI", "LDR", "LEA", "ST", "STI", "STR", "TRAP", "NOP", "RET", "RTI", "GETC", "OUT", "PUTC", "PUTS", "IN", "PUTSP", "HALT",
    ".orig", ".ORIG", ".fill", ".blkw", ".stringz", ".end", ".external", ".bogus", "R0", "R7", "R8", "r3", "LABEL", "l_1", "_", "é", "ß", "λ", "Ж", "中", "🦀", "٣", "\u{149}", "\u{390}", "\u{fb01}", "\u{131}", "\u{130}", "\0", "\u{7f}", "\u{1}", "\u{feff}", "\u{2028}",
    "x3000", "#5", "#-5", "x-A", "\\n", "\\\"", "\\0", "a", "Z", "+", "=", "|", "@", "'", "(", ")", "[", "/", "*", "`"];

fn soup(rng: &mut Rng) -> String {
    let cap = match rng.below(4) { 0 => 4, 1 => 12, _ => 40 };
    let n = 1 + rng.usize(cap);
    let mut s = String::new();
    let spaced = rng.bool();
    for _ in 0..n {
        s.push_str(SOUP[rng.usize(SOUP.len())]);
        if spaced && rng.chance(2, 3) { s.push(' '); }
    }
    s
}

fn mutate(rng: &mut Rng, text: &str) -> String {
    let mut chars: Vec<char> = text.chars().collect();
    let k = 1 + rng.usize(6);
    for _ in 0..k {
        if chars.is_empty() { chars.push('"'); continue; }
        let i = rng.usize(chars.len());
        match rng.below(7) {
            0 => { chars.remove(i); }
            1 => { let c = SOUP[rng.usize(SOUP.len())].chars().next().unwrap_or('"'); chars.insert(i, c); }
            2 => { chars[i] = *rng.pick(&['"', '\\', '\n', '\r', ';', ',', ':', '.', '#', '-', 'x', 'é', '🦀', '\0', ' ', '9']); }
            3 => { let j = (i + 1 + rng.usize(8)).min(chars.len()); let sl: Vec<char> = chars[i..j].to_vec(); for (o, c) in sl.into_iter().enumerate() { chars.insert(i + o, c); } }
            4 => { chars.truncate(i); }
            5 => { let j = (i + 1 + rng.usize(5)).min(chars.len()); chars.drain(i..j); }
            _ => { let ins: Vec<char> = SOUP[rng.usize(SOUP.len())].chars().collect(); for (o, c) in ins.into_iter().enumerate() { chars.insert(i + o, c); } }
        }
    }
    chars.into_iter().collect()
}

fn run(ctx: &mut Ctx) {
    let table = escape_table();
    ctx.cases(0, table.len() as u64, |ctx, _rng, i| { check_input(ctx, &table[i as usize], "table"); });
    let n = ctx.tier.pick(150_000, 12_000_000);
    ctx.cases(1, n, |ctx, rng, _| { let s = soup(rng); check_input(ctx, &s, "soup"); });
    let n = ctx.tier.pick(40_000, 3_000_000);
    ctx.cases(2, n, |ctx, rng, _| {
        let opts = GenOpts { big_padding: false, max_blocks: 2, max_stmts_per_block: 8, ..GenOpts::default() };
        let prog = gen_program(rng, &opts);
        let style = Style::random(rng);
        let r = render(rng, &prog.stmts, &style);
        let m = mutate(rng, &r.text);
        check_input(ctx, &m, "mutated");
        if ctx.want_sample() && m.len() < 120 { ctx.sample(Json::obj().set("input", m.as_str()).set("class", "mutated")); }
    });
}

fn guard(m: &Merged, _t: Tier) -> Vec<String> {
    let mut out = vec![];
    for k in ["table.ok", "table.err", "soup.ok", "soup.err", "mutated.ok", "mutated.err"] { need(m, &mut out, k, 20); }
    let msgs = m.counts.keys().filter(|k| k.starts_with("message.")).count() as u64;
    if msgs < 12 { out.push(format!("only {msgs} distinct error messages observed")); }
    out
}

//! C01 Assembled image is the exact LC-3 encoding of the source.
use super::*;
use crate::asmutil::*;
use crate::gen::*;
use crate::json::Json;
use crate::refasm::analyze;
use lc3_ensemble::asm::SymbolTable;

pub fn prop() -> Prop {
    Prop {
        id: "C01", title: "Assembled image is the exact LC-3 encoding of the source", level: "exploration",
        rule: "Random well-formed programs from the statement grammar (every opcode/alias/directive, immediates at field limits, 1-4 blocks at boundary and random origins, \
               blocks ending exactly at xFE00, labels on statements/.end, forward/backward/cross-block label operands, offsets steered exactly onto the 9/11-bit limits, \
               .external + .fill) are rendered to text, parsed and assembled by the crate with and without debug symbols; the object file's address set, words and label table \
               must equal an independent two-pass reference assembler's. A case is non-trivial when it has at least one sized statement; distinct = distinct statement lists (hashed).",
        assumptions: &["reference assembler (harness/src/refasm.rs) implements the LC-3 encoding and PC-relative arithmetic modulo 2^16", "labels are ASCII identifiers"],
        run, guard,
        level_text: "Differential runtime monitoring: tens of thousands (quick) to millions (thorough) of generated programs are assembled by the real code and compared word-for-word and label-for-label with an independent reference assembler; sampling steered to field and address boundaries, not exhaustive.",
        level_note: "Trusts the reference assembler and the generator's grammar coverage; inputs are limited to ASCII labels and the generator's statement mix.",
        technique: "differential monitoring against a reference assembler over generated programs",
        ..Prop::base("C01", "")
    }
}

fn run(ctx: &mut Ctx) {
    let n = ctx.tier.pick(24_000, 1_500_000);
    ctx.cases(0, n, |ctx, rng, _| {
        let mut opts = GenOpts::default();
        if rng.chance(1, 2) { opts.big_padding = false; }
        let mut prog = gen_program(rng, &opts);
        let mut steered = None;
        if rng.chance(1, 3) { steered = steer_offset(rng, &mut prog, false); }
        if rng.chance(1, 8) { let sfx = *rng.pick(&["é", "φ", "文", "ï2"]); widen_labels(&mut prog.stmts, sfx); ctx.count("programs.with-non-ascii-labels"); }
        let a = analyze(&prog.stmts);
        ctx.eval();
        if a.reject { ctx.count("generator.produced-ill-formed"); return; }
        let style = if rng.chance(1, 5) { Style::plain() } else { Style::random(rng) };
        let r = render(rng, &prog.stmts, &style);
        let case = || case_json(&r);
        if a.image.is_empty() { ctx.count("programs.empty-image"); } else { ctx.nontrivial_str(&r.text); }
        for debug in [false, true] {
            let tag = if debug { "debug" } else { "nodebug" };
            let Some(res) = ctx.no_panic("assemble", case, || asm(&r.text, debug)) else { return };
            let obj = match res {
                Err(e) => { ctx.violation("parser-rejects-valid-program", format!("parse error on a grammatical program: {e}"), case()); return; }
                Ok(Err(e)) => { ctx.violation(&format!("assembler-rejects-wellformed:{:?}", e.kind), format!("assemble ({tag}) failed with {:?} on a well-formed program", e.kind), case()); return; }
                Ok(Ok(o)) => o,
            };
            let got = image_of(&obj);
            if let Some((sig, what)) = diff_image(&prog.stmts, &a, &got) { ctx.violation(&format!("{sig}:{tag}"), what, case()); return; }
            if debug {
                match obj.symbol_table() {
                    None => { ctx.violation("no-symbol-table:debug", "assemble_debug returned no symbol table", case()); return; }
                    Some(sym) => if let Some((sig, what)) = diff_labels(&a, sym) {
                        // declared-external-and-defined-at-0 is ambiguous; the generator never produces it
                        ctx.violation(&format!("{sig}:{tag}"), what, case()); return;
                    }
                }
            } else if let Ok(ast) = parse(&r.text) {
                match SymbolTable::new(&ast, None) {
                    Ok(sym) => if let Some((sig, what)) = diff_labels(&a, &sym) { ctx.violation(&format!("{sig}:{tag}"), what, case()); return; },
                    Err(e) => { ctx.violation("symbol-table-rejects-wellformed", format!("SymbolTable::new failed: {:?}", e.kind), case()); return; }
                }
            }
        }
        // coverage accounting
        ctx.count("programs.accepted");
        for t in origin_tags(&prog.stmts) { ctx.count(&t); }
        if let Some(d) = &steered { ctx.count(&format!("steered.{}", d.split(' ').take(2).collect::<Vec<_>>().join("-"))); }
        let mut lc_end_fe00 = false;
        for (s, w) in &a.blocks { if *s as u32 + w.len() as u32 == 0xFE00 { lc_end_fe00 = true; } }
        if lc_end_fe00 { ctx.count("block-ends-at-xFE00"); }
        if a.blocks.len() > 1 { ctx.count("programs.multi-block"); }
        if !a.relocs.is_empty() { ctx.count("programs.with-external-fill"); }
        for (i, st) in prog.stmts.iter().enumerate() {
            let name = st.k.name();
            ctx.count(&format!("stmt.{name}"));
            if !st.labels.is_empty() { ctx.count(&format!("labelled.{name}")); }
            if let Some((PcOp::Label(l), bits)) = st.k.pc_operand() {
                let here = a.stmt_addr[&i] as i64;
                let t = a.labels[&l.to_uppercase()].0 as i64;
                let d = (t - (here + 1)).rem_euclid(65536); let d = if d >= 32768 { d - 65536 } else { d };
                let dir = if d >= 0 { "fwd" } else { "back" };
                ctx.count(&format!("pcrel-label.{name}.{dir}"));
                if d == (1 << (bits - 1)) - 1 { ctx.count(&format!("pcrel-at-max.{bits}")); }
                if d == -(1 << (bits - 1)) { ctx.count(&format!("pcrel-at-min.{bits}")); }
                if (t - (here + 1)).abs() > 40000 { ctx.count("pcrel-wraps-address-space"); }
            }
            if let K::Fill(PcOp::Label(_)) = st.k { ctx.count("fill-label"); }
        }
        if ctx.want_sample() && !a.image.is_empty() && a.image.len() < 12 {
            ctx.sample(Json::obj().set("source", r.text.as_str()).set("words", a.image.iter().map(|(k, v)| format!("x{k:04X}={}", v.map(|w| format!("x{w:04X}")).unwrap_or("????".into()))).collect::<Vec<_>>().join(" ")));
        }
    });
}

fn guard(m: &Merged, _t: Tier) -> Vec<String> {
    let mut out = vec![];
    for n in ["ADDr", "ADDi", "ANDr", "ANDi", "BR", "JMP", "JSR", "JSRR", "LD", "LDI", "LDR", "LEA", "NOT", "RET", "RTI", "ST", "STI", "STR", "TRAP", "NOP",
              "GETC", "OUT", "PUTC", "PUTS", "IN", "PUTSP", "HALT", ".fill", ".blkw", ".stringz", ".external"] { need(m, &mut out, &format!("stmt.{n}"), 20); }
    for n in ["BR", "JSR", "LD", "LDI", "LEA", "ST", "STI", "NOP"] { need_prefix(m, &mut out, &format!("pcrel-label.{n}."), 5); }
    for k in ["pcrel-at-max.9", "pcrel-at-min.9", "pcrel-at-max.11", "pcrel-at-min.11", "block-ends-at-xFE00", "programs.multi-block", "programs.with-external-fill", "origin.x0000", "fill-label"] { need(m, &mut out, k, 1); }
    let acc = m.c("programs.accepted"); let bad = m.c("generator.produced-ill-formed");
    if acc < 1000 || bad * 5 > acc { out.push(format!("accepted {acc}, generator-produced ill-formed {bad}")); }
    out
}

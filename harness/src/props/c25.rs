//! C25 Source position queries are consistent.
use super::*;
use crate::json::Json;
use lc3_ensemble::asm::SourceInfo;

pub fn prop() -> Prop {
    Prop {
        id: "C25", title: "Source position queries are consistent", level: "exploration",
        rule: "Random strings (length 0-60) over an alphabet rich in LF, CRLF, lone CR, spaces, tabs, Unicode spaces, ASCII and multi-byte letters; for each: count_lines = newlines + 1; for every line index up to count+2, \
               line_span/read_line = that line without surrounding whitespace (None past the end); for every byte index up to len+10, get_pos_pair = (number of newlines before the index, index - start of that line), and for an index past the end \
               (last line, index - start of last line). Oracle: plain string arithmetic in the harness. Non-trivial = string containing at least one newline; distinct = distinct strings.",
        assumptions: &["'surrounding whitespace' means str::trim (Unicode White_Space)", "the line of an index that points at a newline character is the line that newline terminates"],
        run, guard,
        level_text: "Runtime oracle check of every line index and every byte index (including 10 past the end) on tens of thousands (quick) to millions (thorough) of random strings.",
        level_note: "Short strings only (the queries are position arithmetic, length-independent).",
        technique: "oracle comparison against string arithmetic over random inputs",
        ..Prop::base("C25", "")
    }
}

fn run(ctx: &mut Ctx) {
    let n = ctx.tier.pick(40_000, 3_000_000);
    ctx.cases(0, n, |ctx, rng, _| {
        let len = match rng.below(6) { 0 => 0, 1 => 1, _ => rng.usize(60) };
        let mut s = String::new();
        for _ in 0..len {
            let c = match rng.below(12) { 0 | 1 | 2 => "\n", 3 => "\r\n", 4 => "\r", 5 | 6 => " ", 7 => "\t", 8 => *rng.pick(&["\u{a0}", "\u{2003}", "\u{c}"]), 9 => *rng.pick(&["é", "中", "🦀"]), _ => *rng.pick(&["a", "B", ";", ".", "9", "x"]) };
            s.push_str(c);
        }
        ctx.eval();
        if s.contains('\n') { ctx.nontrivial_str(&s); }
        let case = || Json::obj().set("text", s.as_str());
        let Some(si) = ctx.no_panic("SourceInfo::new", case, || SourceInfo::new(&s)) else { return };
        if !check_si(ctx, &si, &s, &case) { return; }
        if s.contains("\r\n") { ctx.count("texts.crlf"); }
        if s.ends_with('\n') { ctx.count("texts.trailing-newline"); }
        if s.is_empty() { ctx.count("texts.empty"); }
        if ctx.want_sample() && s.len() > 8 && s.contains('\n') { ctx.sample(Json::obj().set("text", s.as_str()).set("lines", s.matches('\n').count() + 1)); }
    });
    // phase 1: SourceInfo values that were not built by SourceInfo::new: taken from assembled objects, from linked objects (the
    // linker joins the sources and their line tables) and from objects read back from both file formats
    let n = ctx.tier.pick(3_000, 200_000);
    ctx.cases(1, n, |ctx, rng, _| {
        use lc3_ensemble::asm::encoding::{BinaryFormat, ObjFileFormat, TextFormat};
        let nfiles = 2 + rng.usize(2);
        let files = crate::objutil::gen_link_set(rng, nfiles, false);
        let mut objs = vec![];
        for f in &files { match crate::asmutil::asm(&f.r.text, true) { Ok(Ok(o)) => objs.push(o), _ => { ctx.count("derived.not-assembled"); return; } } }
        let trees = crate::objutil::all_trees(nfiles);
        let t = rng.pick(&trees).clone();
        let case = || Json::obj().set("sources", Json::Arr(files.iter().map(|f| Json::from(f.r.text.as_str())).collect())).set("link_tree", t.show());
        let Some(linked) = ctx.no_panic("link", case, || crate::objutil::eval_tree(&t, &objs)) else { return };
        let mut subjects: Vec<(&str, lc3_ensemble::asm::ObjectFile)> = vec![("assembled", objs[0].clone())];
        if let Ok(l) = linked {
            if rng.bool() { if let Some(b) = BinaryFormat::deserialize(&BinaryFormat::serialize(&l)) { subjects.push(("linked+binary-roundtrip", b)); } }
            else if let Some(b) = TextFormat::deserialize(&TextFormat::serialize(&l)) { subjects.push(("linked+text-roundtrip", b)); }
            subjects.push(("linked", l));
        } else { ctx.count("derived.link-failed"); }
        for (origin, o) in &subjects {
            let Some(si) = o.symbol_table().and_then(|t| t.source_info()) else { continue };
            let text = si.source().to_string();
            ctx.eval();
            if text.contains('\n') { ctx.nontrivial_str(&text); }
            let c2 = || case().set("source_info_from", *origin);
            if !check_si(ctx, si, &text, &c2) { return; }
            ctx.count(&format!("derived.{origin}"));
        }
    });
}

/// The oracle: every query of `si` against plain string arithmetic over `s` (= si.source()). Returns false after a violation.
fn check_si(ctx: &mut Ctx, si: &SourceInfo, s: &str, case: &dyn Fn() -> Json) -> bool {
        // reference
        let mut starts = vec![0usize];
        for (i, b) in s.bytes().enumerate() { if b == b'\n' { starts.push(i + 1); } }
        let count = starts.len();
        if si.count_lines() != count { ctx.violation("count_lines", format!("count_lines = {}, expected {count}", si.count_lines()), case()); return false; }
        if si.source() != s { ctx.violation("source", "source() differs", case()); return false; }
        for line in 0..count + 3 {
            let want = if line < count {
                let st = starts[line]; let en = if line + 1 < count { starts[line + 1] - 1 } else { s.len() };
                let seg = &s[st..en];
                let t = seg.trim_end(); let end = st + t.len(); let start = st + (t.len() - t.trim_start().len());
                Some(start..end)
            } else { None };
            let Some(got) = ctx.no_panic("line_span", case, || si.line_span(line)) else { return false };
            if got != want { ctx.violation(if line < count { "line_span:in-range" } else { "line_span:past-end" }, format!("line_span({line}) = {got:?}, expected {want:?}"), case()); return false; }
            let Some(got) = ctx.no_panic("read_line", case, || si.read_line(line).map(|x| x.to_string())) else { return false };
            let wtxt = want.clone().map(|r| s[r].to_string());
            if got != wtxt { ctx.violation("read_line", format!("read_line({line}) = {got:?}, expected {wtxt:?}"), case()); return false; }
            if want.is_some_and(|r| r.is_empty()) { ctx.count("lines.blank-or-whitespace"); }
            ctx.count("line-queries");
        }
        for idx in 0..=s.len() + 10 {
            let line = if idx <= s.len() { s.as_bytes()[..idx].iter().filter(|b| **b == b'\n').count() } else { count - 1 };
            // an index pointing AT a newline belongs to the line it terminates (the count above already excludes it)
            let want = (line, idx - starts[line]);
            let Some(got) = ctx.no_panic("get_pos_pair", case, || si.get_pos_pair(idx)) else { return false };
            if got != want {
                let cls = if idx > s.len() { "past-end" } else if idx == s.len() { "at-end" } else { "inside" };
                ctx.violation(&format!("get_pos_pair:{cls}"), format!("get_pos_pair({idx}) = {got:?}, expected {want:?} (len {})", s.len()), case()); return false;
            }
            ctx.count(if idx > s.len() { "index-queries.past-end" } else { "index-queries.inside" });
        }
    true
}

fn guard(m: &Merged, _t: Tier) -> Vec<String> {
    let mut out = vec![];
    for k in ["line-queries", "index-queries.inside", "index-queries.past-end", "texts.crlf", "texts.trailing-newline", "texts.empty", "lines.blank-or-whitespace", "derived.assembled", "derived.linked"] { need(m, &mut out, k, 100); }
    out
}

//! C25 Source position queries are consistent.
use super::*;
use crate::json::Json;
use lc3_ensemble::asm::SourceInfo;

pub fn prop() -> Prop {
    Prop {
        id: "C25", title: "Source position queries are consistent", level: "exploration",
        rule: "Random strings (length 0-60) over an alphabet rich in LF, CRLF, lone CR, spaces, tabs, Unicode spaces, ASCII and multi-byte letters; for each: count_lines = newlines + 1; for every line index up to count+2, \
               line_span/read_line = that line without surrounding whitespace (None past the end); for every byte index up to len+10, get_pos_pair = (number of newlines before the index, index - start of that line), and for an index past the end \
               (last line, index - start of last line). Oracle: plain string arithmetic in the harness. Non-trivial = string containing at least one newline; distinct = distinct strings.",
        assumptions: &["'surrounding whitespace' means str::trim (Unicode White_Space)", "the line of an index that points at a newline character is the line that newline terminates"],
        run, guard,
        level_text: "Runtime oracle check of every line index and every byte index (including 10 past the end) on tens of thousands (quick) to millions (thorough) of random strings.",
        level_note: "Short strings only (the queries are position arithmetic, length-independent).",
        technique: "oracle comparison against string arithmetic over random inputs",
        ..Prop::base("C25", "")
    }
}

fn run(ctx: &mut Ctx) {
    let n = ctx.tier.pick(40_000, 3_000_000);
    ctx.cases(0, n, |ctx, rng, _| {
        let len = match rng.below(6) { 0 => 0, 1 => 1, _ => rng.usize(60) };
        let mut s = String::new();
        for _ in 0..len {
            let c = match rng.below(12) { 0 | 1 | 2 => "\n", 3 => "\r\n", 4 => "\r", 5 | 6 => " ", 7 => "\t", 8 => *rng.pick(&["\u{a0}", "\u{2003}", "\u{c}"]), 9 => *rng.pick(&["é", "中", "🦀"]), _ => *rng.pick(&["a", "B", ";", ".", "9", "x"]) };
            s.push_str(c);
        }
        ctx.eval();
        if s.contains('\n') { ctx.nontrivial_str(&s); }
        let case = || Json::obj().set("text", s.as_str());
        let Some(si) = ctx.no_panic("SourceInfo::new", case, || SourceInfo::new(&s)) else { return };
        // reference
        let mut starts = vec![0usize];
        for (i, b) in s.bytes().enumerate() { if b == b'\n' { starts.push(i + 1); } }
        let count = starts.len();
        if si.count_lines() != count { ctx.violation("count_lines", format!("count_lines = {}, expected {count}", si.count_lines()), case()); return; }
        if si.source() != s { ctx.violation("source", "source() differs", case()); return; }
        for line in 0..count + 3 {
            let want = if line < count {
                let st = starts[line]; let en = if line + 1 < count { starts[line + 1] - 1 } else { s.len() };
                let seg = &s[st..en];
                let t = seg.trim_end(); let end = st + t.len(); let start = st + (t.len() - t.trim_start().len());
                Some(start..end)
            } else { None };
            let Some(got) = ctx.no_panic("line_span", case, || si.line_span(line)) else { return };
            if got != want { ctx.violation(if line < count { "line_span:in-range" } else { "line_span:past-end" }, format!("line_span({line}) = {got:?}, expected {want:?}"), case()); return; }
            let Some(got) = ctx.no_panic("read_line", case, || si.read_line(line).map(|x| x.to_string())) else { return };
            let wtxt = want.clone().map(|r| s[r].to_string());
            if got != wtxt { ctx.violation("read_line", format!("read_line({line}) = {got:?}, expected {wtxt:?}"), case()); return; }
            if want.is_some_and(|r| r.is_empty()) { ctx.count("lines.blank-or-whitespace"); }
            ctx.count("line-queries");
        }
        for idx in 0..=s.len() + 10 {
            let line = if idx <= s.len() { s.as_bytes()[..idx].iter().filter(|b| **b == b'\n').count() } else { count - 1 };
            // an index pointing AT a newline belongs to the line it terminates (the count above already excludes it)
            let want = (line, idx - starts[line]);
            let Some(got) = ctx.no_panic("get_pos_pair", case, || si.get_pos_pair(idx)) else { return };
            if got != want {
                let cls = if idx > s.len() { "past-end" } else if idx == s.len() { "at-end" } else { "inside" };
                ctx.violation(&format!("get_pos_pair:{cls}"), format!("get_pos_pair({idx}) = {got:?}, expected {want:?} (len {})", s.len()), case()); return;
            }
            ctx.count(if idx > s.len() { "index-queries.past-end" } else { "index-queries.inside" });
        }
        if s.contains("\r\n") { ctx.count("texts.crlf"); }
        if s.ends_with('\n') { ctx.count("texts.trailing-newline"); }
        if s.is_empty() { ctx.count("texts.empty"); }
        if ctx.want_sample() && s.len() > 8 && s.contains('\n') { ctx.sample(Json::obj().set("text", s.as_str()).set("lines", count)); }
    });
}

fn guard(m: &Merged, _t: Tier) -> Vec<String> {
    let mut out = vec![];
    for k in ["line-queries", "index-queries.inside", "index-queries.past-end", "texts.crlf", "texts.trailing-newline", "texts.empty", "lines.blank-or-whitespace"] { need(m, &mut out, k, 100); }
    out
}

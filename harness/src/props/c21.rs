//! C21 External references are never silently left unresolved.
use super::*;
use crate::gen::*;
use crate::json::Json;
use crate::objutil::*;
use lc3_ensemble::asm::ObjectFile;
use lc3_ensemble::sim::mem::MachineInitStrategy;
use lc3_ensemble::sim::{SimErr, SimFlags, Simulator};

pub fn prop() -> Prop {
    Prop {
        id: "C21", title: "External references are never silently left unresolved", level: "exploration",
        rule: "Generated files whose .fill words refer to labels declared .external (declaration before the first block, between blocks, inside a block before or after the use, after the last block; several uses per label) are \
               assembled with and without debug symbols. (a) Loading the file directly must fail with UnresolvedExternal. (b) After linking with a file that defines the labels (definer assembled with a label table; both link orders) \
               every such word must hold the label's address and loading must succeed with those words in memory. (c) If the link partner carries no label table the result must still refuse to load rather than load a placeholder. \
               Non-trivial = file with at least one external .fill; distinct = distinct sources.",
        assumptions: &["a defining file can only resolve externals if it carries a label table (assembled with debug symbols)"],
        run, guard,
        level_text: "Runtime monitor over generated programs with every placement of the .external declaration relative to its uses, with and without debug symbols, loaded directly and after linking in both orders.",
        level_note: "Sampled; the definer is always a freshly generated small file.",
        technique: "contract monitoring of assemble -> (link) -> load over generated programs",
        ..Prop::base("C21", "")
    }
}

fn new_sim() -> Simulator { Simulator::new(SimFlags { machine_init: MachineInitStrategy::Known { value: 0x5555 }, ..Default::default() }) }

fn run(ctx: &mut Ctx) {
    let n = ctx.tier.pick(3_000, 250_000);
    let mut sim = new_sim();
    ctx.cases(0, n, |ctx, rng, _| {
        let files = gen_link_set(rng, 2, false);
        for f in &files {
            if f.a.reject || f.a.relocs.is_empty() { continue; }
            // placement class of the declarations relative to their uses
            let first_use = f.stmts.iter().position(|s| matches!(&s.k, K::Fill(PcOp::Label(l)) if f.a.relocs.values().any(|n| n.eq_ignore_ascii_case(l)))).unwrap_or(0);
            let decl = f.stmts.iter().position(|s| matches!(&s.k, K::External(l) if f.a.relocs.values().any(|n| n.eq_ignore_ascii_case(l)))).unwrap_or(0);
            let inside = { let mut open = false; let mut r = false; for (i, s) in f.stmts.iter().enumerate() { match s.k { K::Orig(_) => open = true, K::End => open = false, _ => {} } if i == decl { r = open; } } r };
            let placement = format!("decl-{}-{}", if decl < first_use { "before-use" } else { "after-use" }, if inside { "inside-block" } else { "outside-block" });
            // definer: a file that defines every pending label
            // every label the file declares external (used or not) gets a definition
            let names: Vec<String> = { let mut v: Vec<String> = f.a.labels.iter().filter(|(_, (_, e))| *e).map(|(n, _)| n.clone()).collect(); v.sort(); v.dedup(); v };
            // the definitions sit at x7000.., or start at address 0 / 1 (0 is also the placeholder address of an external) or high in memory
            let dorig: u16 = *rng.pick(&[0x7000u16, 0x7000, 0x0000, 0x0000, 0x0001, 0xFD00]);
            // one statement may carry several of the names (two externals resolving to the same address)
            let mut def_src = format!(".orig x{dorig:04X}\n");
            let mut addr_of: std::collections::BTreeMap<String, u16> = std::collections::BTreeMap::new();
            let mut next = dorig; let mut i = 0;
            while i < names.len() {
                let mut group = vec![names[i].clone()]; i += 1;
                while i < names.len() && rng.chance(1, 3) { group.push(names[i].clone()); i += 1; }
                for g in &group { addr_of.insert(g.clone(), next); def_src.push_str(&format!("{}\n", recase(rng, g))); }
                def_src.push_str(&format!(".fill x{:04X}\n", 0x1111u16.wrapping_mul(i as u16)));
                next += 1;
            }
            // the defining file may in turn use a label of this file (mutual references): then it keeps its own label table even without debug symbols
            let mutual: Option<String> = f.a.labels.iter().find(|(n, (_, e))| !*e && is_label_name(n)).map(|(n, _)| n.clone()).filter(|_| rng.bool());
            let mut def_mutual = def_src.clone();
            if let Some(m) = &mutual { def_mutual.push_str(&format!(".fill {}\n.end\n.external {}\n", recase(rng, m), recase(rng, m))); } else { def_mutual.push_str(".end\n"); }
            def_src.push_str(".end\n");
            for debug in [true, false] {
                ctx.eval();
                ctx.nontrivial_str(&f.r.text);
                let tag = if debug { "debug" } else { "nodebug" };
                let case = || Json::obj().set("source", f.r.text.as_str()).set("debug", debug).set("definer", def_src.as_str());
                let Ok(Ok(obj)) = crate::asmutil::asm(&f.r.text, debug) else { ctx.count("not-assembled"); continue };
                // (a) direct load must fail
                let Some(r) = ctx.no_panic("load_obj_file", case, || sim.load_obj_file(&obj)) else { sim = new_sim(); continue };
                match r {
                    Err(SimErr::UnresolvedExternal(_)) => ctx.count(&format!("direct-load-refused.{tag}.{placement}")),
                    Err(e) => { ctx.violation(&format!("direct-load-wrong-error:{tag}"), format!("load_obj_file failed with {e:?}"), case()); continue; }
                    Ok(()) => {
                        let (a, l) = f.a.relocs.iter().next().unwrap();
                        ctx.violation(&format!("unresolved-external-loads-silently:{tag}:{placement}"), format!("file with .fill {l} at x{a:04X} (external, undefined) loaded without error; word = x{:04X}", sim.mem[*a].get()), case());
                        continue;
                    }
                }
                // (b) link with a definer that has a label table
                let Ok(Ok(def)) = crate::asmutil::asm(&def_src, true) else { continue };
                for order in 0..2 {
                    let Some(linked) = ctx.no_panic("link", case, || if order == 0 { ObjectFile::link(obj.clone(), def.clone()) } else { ObjectFile::link(def.clone(), obj.clone()) }) else { continue };
                    let Ok(linked) = linked else { ctx.count("link-failed"); continue };
                    let img = crate::asmutil::image_of(&linked);
                    let labels: std::collections::BTreeMap<String, u16> = linked.symbol_table().map(|s| s.label_iter().map(|(n, a, _)| (n.to_uppercase(), a)).collect()).unwrap_or_default();
                    let mut bad = None;
                    for (a, l) in &f.a.relocs { let want = addr_of[l]; if img.get(a) != Some(&Some(want)) || labels.get(l) != Some(&want) { bad = Some((*a, l.clone(), want, img.get(a).copied())); break; } }
                    if let Some((a, l, want, got)) = bad {
                        ctx.violation(&format!("linked-word-not-label-address:{tag}:{placement}"), format!("after linking (order {order}) the .fill {l} word at x{a:04X} is {got:X?}, expected x{want:04X}"), case()); continue;
                    }
                    match sim.load_obj_file(&linked) {
                        Ok(()) => { if f.a.relocs.iter().all(|(a, l)| sim.mem[*a].get() == addr_of[l]) { ctx.count(&format!("linked-and-loaded.{tag}.order{order}")); if dorig == 0 { ctx.count("linked-and-loaded.definition-at-x0000"); } if { let mut v: Vec<u16> = f.a.relocs.values().map(|n| addr_of[n]).collect(); v.sort(); v.dedup(); v.len() } < { let mut v: Vec<&String> = f.a.relocs.values().collect(); v.sort(); v.dedup(); v.len() } { ctx.count("linked-and-loaded.two-names-one-address"); } } else { ctx.violation("loaded-word-differs", "memory after load differs from the linked image", case()); } }
                        Err(e) => ctx.violation(&format!("resolved-file-does-not-load:{tag}"), format!("linked file fails to load: {e:?}"), case()),
                    }
                }
                // (d) mutual references: the defining file, assembled without debug symbols, itself declares a label of this file
                if mutual.is_some() {
                    if let Ok(Ok(def_m)) = crate::asmutil::asm(&def_mutual, false) {
                        for order in 0..2 {
                            let Some(Ok(l)) = ctx.no_panic("link", case, || if order == 0 { ObjectFile::link(obj.clone(), def_m.clone()) } else { ObjectFile::link(def_m.clone(), obj.clone()) }) else { continue };
                            let img = crate::asmutil::image_of(&l);
                            if let Some((a, nm)) = f.a.relocs.iter().find(|(a, nm)| img.get(*a) != Some(&Some(addr_of[*nm]))) { ctx.violation(&format!("mutual-link-word-not-label-address:{tag}"), format!("order {order}: the .fill {nm} word at x{a:04X} is {:X?}, expected x{:04X}", img.get(a), addr_of[nm]), case().set("definer", def_mutual.as_str())); break; }
                            match sim.load_obj_file(&l) { Ok(()) => ctx.count("mutual.linked-and-loaded"), Err(e) => { ctx.violation(&format!("mutual-link-does-not-load:{tag}"), format!("order {order}: two files that define each other's externals were linked, but loading fails: {e:?}"), case().set("definer", def_mutual.as_str())); break; } }
                        }
                    }
                }
                // (c) partner without label table: must not load silently
                if let Ok(Ok(def_nd)) = crate::asmutil::asm(&def_src, false) {
                    if let Some(Ok(l)) = ctx.no_panic("link", case, || ObjectFile::link(obj.clone(), def_nd.clone())) {
                        match sim.load_obj_file(&l) {
                            Err(SimErr::UnresolvedExternal(_)) => ctx.count(&format!("partner-without-labels-refused.{tag}")),
                            Ok(()) => {
                                let resolved = f.a.relocs.iter().all(|(a, l)| sim.mem[*a].get() == addr_of[l]);
                                if resolved { ctx.count("partner-without-labels-resolved"); } else { ctx.violation(&format!("placeholder-loads-silently-after-link:{tag}"), "linking with a file without label table left the placeholder and loading succeeded", case()); }
                            }
                            Err(e) => ctx.violation("load-wrong-error", format!("{e:?}"), case()),
                        }
                    }
                }
            }
            if ctx.want_sample() && f.r.text.len() < 300 { ctx.sample(Json::obj().set("source", f.r.text.as_str()).set("definer", def_src.as_str()).set("placement", placement.as_str())); }
        }
    });
}

fn guard(m: &Merged, _t: Tier) -> Vec<String> {
    let mut out = vec![];
    for tag in ["debug", "nodebug"] {
        for p in ["decl-before-use-outside-block", "decl-after-use-outside-block", "decl-before-use-inside-block", "decl-after-use-inside-block"] { need(m, &mut out, &format!("direct-load-refused.{tag}.{p}"), 3); }
        for o in 0..2 { need(m, &mut out, &format!("linked-and-loaded.{tag}.order{o}"), 50); }
        need(m, &mut out, &format!("partner-without-labels-refused.{tag}"), 20);
    }
    need(m, &mut out, "linked-and-loaded.definition-at-x0000", 20);
    need(m, &mut out, "mutual.linked-and-loaded", 20); need(m, &mut out, "linked-and-loaded.two-names-one-address", 20);
    out
}

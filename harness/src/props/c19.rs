//! C19 Reading untrusted object files never panics.
use super::*;
use crate::gen::*;
use crate::json::Json;
use crate::objutil::*;
use crate::rng::Rng;
use lc3_ensemble::asm::encoding::{BinaryFormat, ObjFileFormat, TextFormat};
use lc3_ensemble::asm::ObjectFile;
use lc3_ensemble::sim::mem::MachineInitStrategy;
use lc3_ensemble::sim::{SimFlags, Simulator};

pub fn prop() -> Prop {
    Prop {
        id: "C19", title: "Reading untrusted object files never panics", level: "fault_enumeration",
        rule: "Inputs: (0) hand-built hostile chunk sequences (blocks that wrap or overlap, 65535-word blocks, huge line numbers and label offsets, relocation entries pointing anywhere, unsorted/duplicate line tables, invalid UTF-8, \
               truncated chunks) and hostile text files (0-3 dividers, missing/duplicated sections, bad cells, huge numbers); (1) valid binary serializations of generated/linked objects with structure-aware and byte-level mutations; \
               (2) valid text serializations with line/cell/divider mutations; (3) random bytes and random text. Every input is deserialized inside catch_unwind; every object that comes back is re-serialized in both formats and read back, \
               linked with itself, with a generic assembled file and with a file defining its external labels (both orders), and loaded into a simulator. Any panic, or a shard killed by a signal, is a violation. \
               Runs in the verif and release profiles. Non-trivial = input that deserializes to Some(object) (exercises the later stages); distinct = distinct inputs.",
        assumptions: &["x86-64; two build profiles (verif, release)", "allocation-failure aborts would show up as shard deaths"],
        also_release: true, abort_is_violation: true, run, guard,
        stages: || vec![st("miri", "0,1,2,3", 60, 4, 900), st("asan", "", 5_000, 4, 1200)],
        level_text: "Fault enumeration at run time: hostile hand-built files plus hundreds of thousands (quick) to tens of millions (thorough) of mutated and random inputs pushed through deserialize -> serialize -> link -> load under a panic/abort monitor in two build profiles; thorough adds Miri/ASan stages.",
        level_note: "Sampling; 'never panics' is decided for the inputs generated and the two profiles run.",
        technique: "panic/abort monitor over structure-aware mutation fuzzing of both object formats, two profiles",
        ..Prop::base("C19", "")
    }
}

thread_local! { static SIM: std::cell::RefCell<Option<Simulator>> = const { std::cell::RefCell::new(None) }; }

fn partner_src(extra_labels: &[String]) -> String {
    let mut s = String::from(".orig x6000\nPARTNER HALT\n");
    for l in extra_labels.iter().take(6) { s.push_str(&format!("{l} .fill x1234\n")); }
    s.push_str(".end\n.external SOMEWHERE\n.orig x6100\n.fill SOMEWHERE\n.end\n");
    s
}

fn pipeline(ctx: &mut Ctx, o: ObjectFile, case: &dyn Fn() -> Json, class: &str) {
    ctx.count(&format!("{class}.deserialized"));
    // re-serialize + read back
    if let Some(b) = ctx.no_panic("BinaryFormat::serialize", case, || BinaryFormat::serialize(&o)) { let _ = ctx.no_panic("BinaryFormat::deserialize(reserialized)", case, || BinaryFormat::deserialize(&b)); }
    if let Some(t) = ctx.no_panic("TextFormat::serialize", case, || TextFormat::serialize(&o)) { let _ = ctx.no_panic("TextFormat::deserialize(reserialized)", case, || TextFormat::deserialize(&t)); }
    ctx.count("stage.reserialize");
    // link
    let ext: Vec<String> = o.symbol_table().map(|s| s.label_iter().filter(|(n, _, e)| *e && is_label_name(n)).map(|(n, _, _)| n.to_string()).collect()).unwrap_or_default();
    let alln: Vec<String> = o.symbol_table().map(|s| s.label_iter().filter(|(n, _, _)| is_label_name(n)).map(|(n, _, _)| n.to_string()).collect()).unwrap_or_default();
    let mut partners: Vec<ObjectFile> = vec![];
    for (labels, debug) in [(&ext, true), (&alln, false), (&vec![], true)] {
        if let Ok(Ok(p)) = crate::asmutil::asm(&partner_src(labels), debug) { partners.push(p); }
    }
    partners.push(o.clone());
    partners.push(ObjectFile::empty());
    for p in &partners {
        if let Some(r) = ctx.no_panic("ObjectFile::link(o, partner)", case, || ObjectFile::link(o.clone(), p.clone())) {
            ctx.count(if r.is_ok() { "stage.link.ok" } else { "stage.link.err" });
            if let Ok(l) = r { let _ = ctx.no_panic("serialize(linked)", case, || (BinaryFormat::serialize(&l), TextFormat::serialize(&l))); load(ctx, &l, case); }
        }
        if let Some(r) = ctx.no_panic("ObjectFile::link(partner, o)", case, || ObjectFile::link(p.clone(), o.clone())) {
            ctx.count(if r.is_ok() { "stage.link.ok" } else { "stage.link.err" });
            if let Ok(l) = r { let _ = ctx.no_panic("serialize(linked)", case, || (BinaryFormat::serialize(&l), TextFormat::serialize(&l))); }
        }
    }
    load(ctx, &o, case);
}

fn load(ctx: &mut Ctx, o: &ObjectFile, case: &dyn Fn() -> Json) {
    if ctx.stage == "miri" { return; } // constructing a Simulator costs minutes under Miri
    let mut sim = SIM.with(|s| s.borrow_mut().take()).unwrap_or_else(|| Simulator::new(SimFlags { machine_init: MachineInitStrategy::Known { value: 0 }, ..Default::default() }));
    let r = ctx.no_panic("Simulator::load_obj_file", case, || { let r = sim.load_obj_file(o).is_ok(); (sim, r) });
    if let Some((sim, ok)) = r { ctx.count(if ok { "stage.load.ok" } else { "stage.load.err" }); SIM.with(|s| *s.borrow_mut() = Some(sim)); }
}

fn hex(b: &[u8]) -> String { let mut s = String::new(); for (i, x) in b.iter().enumerate() { if i >= 400 { s.push_str(&format!("..[{} bytes]", b.len())); break; } s.push_str(&format!("{x:02x}")); } s }

fn try_bin(ctx: &mut Ctx, bytes: &[u8], class: &str) {
    ctx.eval();
    let case = || Json::obj().set("format", "binary").set("class", class).set("bytes_hex", hex(bytes));
    let Some(r) = ctx.no_panic("BinaryFormat::deserialize", &case, || BinaryFormat::deserialize(bytes)) else { return };
    match r { None => ctx.count(&format!("{class}.rejected")), Some(o) => { ctx.nontrivial(crate::rng::hash_bytes(bytes)); pipeline(ctx, o, &case, class) } }
}
fn try_text(ctx: &mut Ctx, text: &str, class: &str) {
    ctx.eval();
    let case = || Json::obj().set("format", "text").set("class", class).set("text", if text.len() > 1500 { format!("{}..[{} bytes]", text.chars().take(1000).collect::<String>(), text.len()) } else { text.to_string() });
    let Some(r) = ctx.no_panic("TextFormat::deserialize", &case, || TextFormat::deserialize(text)) else { return };
    match r { None => ctx.count(&format!("{class}.rejected")), Some(o) => { ctx.nontrivial(crate::rng::hash_bytes(text.as_bytes())); pipeline(ctx, o, &case, class) } }
}

// ---- binary chunk builders ----
const MAGIC: &[u8] = b"obj\x21\x10\x00\x01";
fn ch_block(addr: u16, words: &[Option<u16>]) -> Vec<u8> {
    let mut b = vec![0u8]; b.extend(addr.to_le_bytes()); b.extend((words.len() as u16).to_le_bytes());
    for w in words { match w { Some(v) => { b.push(0xFF); b.extend(v.to_le_bytes()); } None => b.extend([0, 0, 0]) } }
    b
}
fn ch_label(addr: u16, ext: u8, start: u64, name: &[u8]) -> Vec<u8> { let mut b = vec![1u8]; b.extend(addr.to_le_bytes()); b.push(ext); b.extend(start.to_le_bytes()); b.extend((name.len() as u64).to_le_bytes()); b.extend(name); b }
fn ch_lines(lno: u64, addrs: &[u16]) -> Vec<u8> { let mut b = vec![2u8]; b.extend(lno.to_le_bytes()); b.extend((addrs.len() as u16).to_le_bytes()); for a in addrs { b.extend(a.to_le_bytes()); } b }
fn ch_src(s: &[u8]) -> Vec<u8> { let mut b = vec![3u8]; b.extend((s.len() as u64).to_le_bytes()); b.extend(s); b }
fn ch_rel(addr: u16, name: &[u8]) -> Vec<u8> { let mut b = vec![4u8]; b.extend(addr.to_le_bytes()); b.extend((name.len() as u64).to_le_bytes()); b.extend(name); b }

/// the very large inputs are left to the native and ASan runs: under Miri a single one takes minutes
fn under_interpreter() -> bool { std::env::var("LC3MON_STAGE").map(|s| s == "miri").unwrap_or(false) }
fn rand_name(rng: &mut Rng) -> Vec<u8> {
    // now and then a name longer than 65535 bytes (text-format column widths, 16-bit length fields)
    if rng.chance(1, 300) && !under_interpreter() { let n = *rng.pick(&[65_535usize, 65_536, 70_000]); let mut v = vec![b'L'; n]; v[1] = b'0' + rng.below(10) as u8; return v; }
    match rng.below(8) { 0 => b"PARTNER".to_vec(), 1 => b"SOMEWHERE".to_vec(), 2 => b"".to_vec(), 3 => vec![0xff, 0xfe], 4 => "é🦀".as_bytes().to_vec(), 5 => b"A | B".to_vec(), 6 => b"X".to_vec(), _ => gen_label_name(rng).to_uppercase().into_bytes() }
}
fn rand_addr(rng: &mut Rng) -> u16 { match rng.below(6) { 0 => 0, 1 => 0xFFFF, 2 => 0xFE00, 3 => 0x3000, 4 => 0x6000, _ => rng.u16() } }
fn rand_u64(rng: &mut Rng) -> u64 { match rng.below(8) { 0 => 0, 1 => u64::MAX, 2 => u64::MAX - 1, 3 => (u64::MAX >> 1) + 1, 4 => u32::MAX as u64, 5 => rng.below(40), 6 => 1 << 62, _ => rng.next() } }

fn built_binary(rng: &mut Rng) -> Vec<u8> {
    let mut b = MAGIC.to_vec();
    let n = 1 + rng.usize(7);
    for _ in 0..n {
        let c = match rng.below(12) {
            0 => { let len = match rng.below(6) { 0 => 0, 1 => 2, 2 => 65535, _ => 1 + rng.usize(5) }; let w: Vec<Option<u16>> = (0..len).map(|_| if rng.chance(1, 4) { None } else { Some(rng.u16()) }).collect(); ch_block(rand_addr(rng), &w) }
            1 => { let a = *rng.pick(&[0xFFFFu16, 0xFFFE, 0xFDFF, 0xFE00, 0x0000]); let w: Vec<Option<u16>> = (0..2 + rng.usize(3)).map(|_| Some(rng.u16())).collect(); ch_block(a, &w) }
            2 | 3 => { let nm = rand_name(rng); ch_label(rand_addr(rng), rng.below(3) as u8, rand_u64(rng), &nm) }
            4 | 5 => { let len = rng.usize(5); let mut a: Vec<u16> = (0..len).map(|_| rand_addr(rng)).collect(); if rng.chance(2, 3) { a.sort(); a.dedup(); } ch_lines(rand_u64(rng), &a) }
            6 => ch_src(match rng.below(4) { 0 => b"" as &[u8], 1 => b"line0\nline1\n\nline3", 2 => b"\n\n\n", _ => "a\r\nb\té\n".as_bytes() }),
            7 | 8 => { let nm = rand_name(rng); ch_rel(rand_addr(rng), &nm) }
            9 => { let mut c = ch_src(b"abc"); c[1..9].copy_from_slice(&rand_u64(rng).to_le_bytes()); c }          // lying length
            10 => { let mut c = ch_label(1, 1, 0, b"LBL"); c[12..20].copy_from_slice(&rand_u64(rng).to_le_bytes()); c } // lying name length
            _ => vec![rng.below(8) as u8],
        };
        b.extend(c);
    }
    if rng.chance(1, 5) { let k = rng.usize(b.len().max(1)); b.truncate(k.max(5)); }
    b
}

fn mutate_binary(rng: &mut Rng, src: &[u8]) -> Vec<u8> {
    let mut b = src.to_vec();
    let k = 1 + rng.usize(4);
    for _ in 0..k {
        if b.len() <= 7 { b.extend([rng.below(5) as u8, 0, 0, 0, 0]); continue; }
        let i = 7 + rng.usize(b.len() - 7);
        match rng.below(9) {
            0 => b[i] = rng.next() as u8,
            1 => b[i] = *rng.pick(&[0u8, 1, 2, 3, 4, 0xFF, 0x80, 0x7f]),
            2 => { b.truncate(i); }
            3 => { b.insert(i, rng.next() as u8); }
            4 => { b.remove(i); }
            5 => { let j = (i + 8).min(b.len()); for x in &mut b[i..j] { *x = 0xFF; } }
            6 => { let j = (i + 2).min(b.len()); for x in &mut b[i..j] { *x = 0; } }
            7 => { let c = match rng.below(4) { 0 => { let nm = rand_name(rng); ch_rel(rand_addr(rng), &nm) } 1 => { let nm = rand_name(rng); ch_label(rand_addr(rng), 1, rand_u64(rng), &nm) } 2 => ch_lines(rand_u64(rng), &[rand_addr(rng)]), _ => ch_block(rand_addr(rng), &[Some(1), None, Some(2)]) }; b.extend(c); }
            _ => { let j = 7 + rng.usize(b.len() - 7); b.swap(i, j); }
        }
    }
    b
}

fn mutate_text(rng: &mut Rng, src: &str) -> String {
    let mut lines: Vec<String> = src.lines().map(|l| l.to_string()).collect();
    let k = 1 + rng.usize(4);
    for _ in 0..k {
        if lines.is_empty() { lines.push("LC-3 OBJ FILE".into()); continue; }
        let i = rng.usize(lines.len());
        match rng.below(14) {
            0 => { lines.remove(i); }
            1 => { let l = lines[i].clone(); lines.insert(i, l); }
            2 => { let j = rng.usize(lines.len()); lines.swap(i, j); }
            3 => { lines[i] = "====================".into(); }
            4 => { let d: Vec<usize> = lines.iter().enumerate().filter(|(_, l)| l.starts_with('=')).map(|(k, _)| k).collect(); if !d.is_empty() { let r = *rng.pick(&d); lines.remove(r); } }
            5 => { lines.insert(i, (*rng.pick(&[".TEXT", ".SYMBOL", ".LINKER_INFO", ".DEBUG", ".BOGUS", "."])).to_string()); }
            6 => { lines[i] = lines[i].replace(" | ", *rng.pick(&[" |", "| ", " || ", " | | ", ""])); }
            7 => { let l = &lines[i]; let cs: Vec<char> = l.chars().collect(); if !cs.is_empty() { let p = rng.usize(cs.len()); let mut cs = cs; cs[p] = *rng.pick(&['F', '0', '?', '9', ' ', '|', '=', '.', '#', '\\', 'u', '{', '-', 'é']); lines[i] = cs.into_iter().collect(); } }
            8 => { lines[i] = format!("{}", rand_u64(rng)); }
            9 => { lines[i] = format!("{:04X}", rng.u16()); }
            10 => { lines.truncate(i); }
            11 => { lines.insert(i, format!("{:04X} | {}", rand_addr(rng), String::from_utf8_lossy(&rand_name(rng)))); }
            12 => { lines.insert(i, format!("{:04X} | {:3} | {}", rand_addr(rng), rng.below(3), String::from_utf8_lossy(&rand_name(rng)))); }
            _ => { lines.insert(i, format!("{} | {} | \\u{{{:x}}}\\x", rng.below(5), *rng.pick(&["????", "3000", "FFFF", "zzzz"]), rng.below(0x120000))); }
        }
    }
    let mut s = lines.join(if rng.chance(1, 8) { "\r\n" } else { "\n" });
    if rng.bool() { s.push('\n'); }
    s
}

fn built_text(rng: &mut Rng) -> String {
    // now and then a debug line table with a very long run of rows that carry an address (more than a 16-bit count can hold)
    if rng.chance(1, 3000) && !under_interpreter() {
        let rows = *rng.pick(&[65_535usize, 65_536, 65_537, 70_000]);
        let mut s = String::with_capacity(rows * 22 + 200);
        s.push_str("LC-3 OBJ FILE\n\n.TEXT\n3000\n1\n1021\n\n.DEBUG\n# c\n====================\nLINE | ADDR | SOURCE\n");
        for i in 0..rows { s.push_str(&format!("{i} | {:04X} | x\\n\n", i & 0xFFFF)); }
        s.push_str(&format!("{rows} | ???? | \n====================\n"));
        return s;
    }
    let mut s = String::from("LC-3 OBJ FILE\n\n");
    let n = 1 + rng.usize(5);
    for _ in 0..n {
        match rng.below(6) {
            0 => { s.push_str(".TEXT\n"); for _ in 0..1 + rng.usize(2) { let len = *rng.pick(&[0usize, 1, 2, 3]); s.push_str(&format!("{:04X}\n{}\n", rand_addr(rng), if rng.chance(1, 8) { 65535 } else { len })); for _ in 0..len { if rng.chance(1, 4) { s.push_str("????\n"); } else { s.push_str(&format!("{:04X}\n", rng.u16())); } } } }
            1 => { s.push_str(".SYMBOL\nADDR | EXT | LABEL\n"); for _ in 0..rng.usize(4) { s.push_str(&format!("{:04X} | {:3} | {}\n", rand_addr(rng), rng.below(3), String::from_utf8_lossy(&rand_name(rng)))); } }
            2 => { s.push_str(".LINKER_INFO\nADDR | LABEL\n"); for _ in 0..rng.usize(4) { s.push_str(&format!("{:04X} | {}\n", rand_addr(rng), String::from_utf8_lossy(&rand_name(rng)))); } }
            3 => {
                s.push_str(".DEBUG\n# c\n");
                if rng.bool() { s.push_str("LABEL | INDEX\n"); for _ in 0..rng.usize(3) { s.push_str(&format!("{} | {}\n", String::from_utf8_lossy(&rand_name(rng)), rand_u64(rng))); } }
                let dividers = rng.below(4);
                if dividers >= 1 { s.push_str("====================\n"); }
                if rng.bool() { s.push_str("LINE | ADDR | SOURCE\n"); for i in 0..rng.usize(4) { s.push_str(&format!("{} | {} | {}\n", if rng.chance(1, 6) { rand_u64(rng) } else { i as u64 }, *rng.pick(&["????", "3000", "3001", "2FFF", "FFFF"]), *rng.pick(&["", "  HALT\\n", "\\r\\n", "\\u{1F980}", "\\", "\\q", "a | b | c"]))); } }
                if dividers >= 2 { s.push_str("====================\n"); }
                if dividers >= 3 { s.push_str("====================\n"); }
            }
            4 => s.push_str("# comment\n\n"),
            _ => s.push_str(&format!("{}\n", String::from_utf8_lossy(&rand_name(rng)))),
        }
        s.push('\n');
    }
    s
}

fn seed_object(rng: &mut Rng) -> Option<ObjectFile> {
    if rng.chance(1, 3) {
        let n = 2 + rng.usize(2);
        let files = gen_link_set(rng, n, false);
        let mut objs = vec![];
        for f in &files { match crate::asmutil::asm(&f.r.text, true) { Ok(Ok(o)) => objs.push(o), _ => return None } }
        if rng.bool() { return Some(objs.swap_remove(0)); } // an object with pending externals
        let t = all_trees(n).swap_remove(0);
        eval_tree(&t, &objs).ok()
    } else {
        let opts = GenOpts { big_padding: false, max_stmts_per_block: 6, ..GenOpts::default() };
        let dbg = rng.chance(3, 4);
        gen_object(rng, &opts, dbg).map(|g| g.obj)
    }
}

fn run(ctx: &mut Ctx) {
    let n = ctx.tier.pick(40_000, 4_000_000);
    ctx.cases(0, n, |ctx, rng, _| { if rng.bool() { let b = built_binary(rng); try_bin(ctx, &b, "built-binary"); } else { let t = built_text(rng); try_text(ctx, &t, "built-text"); } });
    let n = ctx.tier.pick(12_000, 1_500_000);
    ctx.cases(1, n, |ctx, rng, _| {
        let Some(o) = seed_object(rng) else { return };
        let b = BinaryFormat::serialize(&o);
        for _ in 0..4 { let m = mutate_binary(rng, &b); try_bin(ctx, &m, "mutated-binary"); }
    });
    ctx.cases(2, n, |ctx, rng, _| {
        let Some(o) = seed_object(rng) else { return };
        let t = TextFormat::serialize(&o);
        for _ in 0..4 { let m = mutate_text(rng, &t); try_text(ctx, &m, "mutated-text"); }
        if ctx.want_sample() && t.len() < 500 { let m = mutate_text(rng, &t); ctx.sample(Json::obj().set("class", "mutated-text").set("input", m)); }
    });
    let n = ctx.tier.pick(20_000, 2_000_000);
    ctx.cases(3, n, |ctx, rng, _| {
        let len = rng.usize(64);
        let mut b: Vec<u8> = (0..len).map(|_| rng.next() as u8).collect();
        if rng.chance(3, 4) { let mut m = MAGIC.to_vec(); m.append(&mut b); b = m; }
        try_bin(ctx, &b, "random-binary");
        let t: String = (0..rng.usize(80)).map(|_| *rng.pick(&['L', 'C', '-', '3', ' ', 'O', 'B', 'J', 'F', 'I', 'E', '\n', '.', 'T', 'X', '|', '=', '#', '0', 'A', '?', '\r', 'é'])).collect();
        try_text(ctx, &format!("LC-3 OBJ FILE\n{t}"), "random-text");
    });
}

fn guard(m: &Merged, _t: Tier) -> Vec<String> {
    let mut out = vec![];
    for c in ["built-binary", "built-text", "mutated-binary", "mutated-text"] { need(m, &mut out, &format!("{c}.deserialized"), 100); need(m, &mut out, &format!("{c}.rejected"), 100); }
    for k in ["stage.reserialize", "stage.link.ok", "stage.link.err", "stage.load.ok", "stage.load.err"] { need(m, &mut out, k, 50); }
    out
}

//! C10 Interrupts are priority-gated and transparent to the interrupted program.
use super::*;
use crate::json::Json;
use crate::progs::*;
use crate::rng::Rng;
use crate::simutil::*;
use lc3_ensemble::sim::device::{BufferedDisplay, BufferedKeyboard, Interrupt, InterruptFromFn, TimerDevice};
use lc3_ensemble::sim::mem::{MachineInitStrategy, Word};
use lc3_ensemble::sim::{InternalRegister, MemAccessCtx, SimFlags, Simulator};
use std::collections::BTreeMap;
use std::sync::{Arc, Mutex};

pub fn prop() -> Prop {
    Prop {
        id: "C10", title: "Interrupts are priority-gated and transparent to the interrupted program", level: "exploration",
        rule: "Terminating user programs (loops, subroutines, stack, PUTS/OUT/PUTSP) run once uninterrupted and then with interrupts from two scripted devices whose handlers (generated ISRs that save/restore the registers they use on R6, \
               compute, optionally store to a supervisor scratch word or read KBDR, and RTI) are installed at random vectors x03-xFF. Schedules: phase 0 = EXHAUSTIVE placement of one request (vector, priority 1-7) at every instruction boundary of short programs; \
               phase 1 = two requests at sampled (quick) boundary pairs incl. the same boundary with different priorities (arbitration), a higher one inside the first ISR (nesting) and an equal/lower one (gated); phase 2 = random one-shot and level-held schedules on longer programs, \
               initial PSR priority 0-6, real and virtual traps, privilege checks on and (a quarter of the setups) off; phase 3 = keyboard interrupts (IE set through KBSR, ISR reads KBDR) and seeded TimerDevices. A monitor called at every boundary (run_while tripwire) checks each transition: an entry happens iff a presented request's priority exceeds \
               the PSR priority, for the highest one; at entry instructions_run is unchanged, PC = mem[x0100+v], supervisor mode, PSR priority = p, R6 = supervisor SP - 2 (stack switched when coming from user mode), mem[R6] = interrupted PC, mem[R6+1] = old PSR, frame depth +1. \
               At the end R0-R7, PSR, saved SP, user memory x3000-xFDFF and the display must equal the uninterrupted run. Non-trivial = run with at least one taken interrupt; distinct = distinct (program, schedule).",
        assumptions: &["ISRs are generated to be well-behaved (save/restore, RTI)", "no two devices present equal priorities at one boundary", "vectors x00-x02 are out of domain", "runs that hit the step bound are inconclusive cases, not violations"],
        exhaustive: never, run, guard,
        level_text: "Runtime monitoring with a per-boundary transition monitor and an end-state differential against the uninterrupted run; exhaustive over single-interrupt placements for each short program, sampled for pairs, random for long schedules, plus keyboard and timer devices.",
        level_note: "Schedules are boundary-granular, which is all the simulator can exhibit; programs and ISRs come from one generator.",
        technique: "boundary-transition monitor (trace checker) + metamorphic comparison with the uninterrupted run",
        ..Prop::base("C10", "")
    }
}

#[derive(Clone, Debug, Default)]
struct Snap { pc: u16, psr: u16, r6: u16, ssp: u16, ir: u64, depth: u64 }
fn snap(s: &mut Simulator) -> Snap {
    let ssp = s.read_mem(SP_PORT, MemAccessCtx::omnipotent()).map(|w| w.get()).unwrap_or(0);
    Snap { pc: s.pc, psr: s.psr().get(), r6: s.reg_file[reg(6)].get(), ssp, ir: s.instructions_run, depth: s.frame_stack.len() }
}

#[derive(Clone, Debug)]
pub struct Req { pub at: u64, pub vect: u8, pub prio: u8, pub dev: usize, pub held: bool }

#[derive(Default)]
struct Mon { taken: u64, gated: u64, lost_arbitration: u64, max_nest: u64, nest: Vec<u8>, violation: Option<(String, String)>, boundaries: u64, trace_pcs: Vec<u16>, entries: Vec<(u64, u8, u8)> }

struct Setup { ign: bool, over: u8, no_stack: bool, prog: UserProg, isrs: BTreeMap<u8, String>, real: bool, prio0: u8, kbd: Vec<u8>, kbd_ie: bool, timer: Option<(u64, u32, u32, u8, u8)> }

fn build_sim(su: &Setup) -> Option<(Simulator, BufferedDisplay, BufferedKeyboard)> {
    let flags = SimFlags { use_real_traps: su.real, ignore_privilege: su.ign, machine_init: MachineInitStrategy::Known { value: 0x2222 }, ..Default::default() };
    let mut sim = Simulator::new(flags);
    let ast = lc3_ensemble::parse::parse_ast(&su.prog.text).ok()?;
    let obj = lc3_ensemble::asm::assemble(ast).ok()?;
    sim.load_obj_file(&obj).ok()?;
    for (v, text) in &su.isrs {
        let ast = lc3_ensemble::parse::parse_ast(text).ok()?;
        let obj = lc3_ensemble::asm::assemble(ast).ok()?;
        let origin = obj.addr_iter().next()?.0;
        sim.load_obj_file(&obj).ok()?;
        sim.mem[0x100 + *v as u16] = Word::new_init(origin);
    }
    sim.mmap_internal(SP_PORT, InternalRegister::SavedSP).ok()?;
    let ds = BufferedDisplay::default(); sim.device_handler.set_display(ds.clone());
    let kb = BufferedKeyboard::default(); kb.get_buffer().write().unwrap().extend(su.kbd.iter().copied()); sim.device_handler.set_keyboard(kb.clone());
    if su.kbd_ie { sim.write_mem(0xFE00, Word::new_init(0x4000), priv_ctx()).ok()?; }
    sim.write_mem(0xFFFC, Word::new_init(0x8002 | ((su.prio0 as u16) << 8)), priv_ctx()).ok()?;
    Some((sim, ds, kb))
}

struct Final { regs: [u16; 8], regs_init: [bool; 8], psr: u16, ssp: u16, user_mem: Vec<u16>, display: Vec<u8>, result: String, steps: u64 }
fn finalize(sim: &mut Simulator, ds: &BufferedDisplay, result: String, steps: u64) -> Final {
    let s = snap(sim);
    Final { regs: std::array::from_fn(|i| sim.reg_file[reg(i)].get()), regs_init: std::array::from_fn(|i| sim.reg_file[reg(i)].is_init()), psr: s.psr, ssp: s.ssp, user_mem: (0x3000..0xFE00u16).map(|a| sim.mem[a].get()).collect(), display: ds.get_buffer().read().unwrap().clone(), result, steps }
}

const STEP_BOUND: u64 = 60_000;

/// Runs the program with the schedule under the boundary monitor.
fn run_monitored(su: &Setup, reqs: &[Req]) -> Option<(Final, Mon)> {
    let (mut sim, ds, _kb) = build_sim(su)?;
    let cells: Vec<IrqCell> = (0..2).map(|_| Arc::new(Mutex::new(None))).collect();
    for c in &cells { let c = c.clone(); sim.device_handler.add_device(InterruptFromFn::new(move || c.lock().unwrap().take().map(|(v, p)| Interrupt::vectored(v, p))), &[]).ok()?; }
    if let Some((seed, lo, hi, v, p)) = su.timer { let mut t = TimerDevice::new(Some(seed), lo..=hi, v, p); t.enabled = true; sim.device_handler.add_device(t, &[]).ok()?; }
    let mut mon = Mon::default();
    let mut prev: Option<(Snap, Vec<(u8, u8)>)> = None; // state before the previous step and what was presented at it
    let mut pending: Vec<Req> = reqs.to_vec();
    let kbd_or_timer = su.kbd_ie || su.timer.is_some();
    let check = |mon: &mut Mon, before: &Snap, presented: &[(u8, u8)], after: &Snap, sim: &Simulator| {
        if mon.violation.is_some() { return; }
        let cur_prio = ((before.psr >> 8) & 7) as u8;
        let best = presented.iter().copied().max_by_key(|x| x.1);
        let expect_entry = best.filter(|b| b.1 > cur_prio);
        let looks_like_entry = after.ir == before.ir && after.depth == before.depth + 1 && after.psr & 0x8000 == 0 && (after.psr != before.psr || after.pc != before.pc);
        match expect_entry {
            Some((v, p)) => {
                let was_user = before.psr & 0x8000 != 0;
                let sup_sp = if was_user { before.ssp } else { before.r6 };
                let handler = sim.mem[0x100 + v as u16].get();
                let mut why = vec![];
                if after.ir != before.ir { why.push(format!("instructions_run advanced ({} -> {})", before.ir, after.ir)); }
                if after.pc != handler { why.push(format!("PC x{:04X}, handler mem[x{:04X}] = x{handler:04X}", after.pc, 0x100 + v as u16)); }
                if after.psr & 0x8000 != 0 { why.push("not in supervisor mode".into()); }
                if ((after.psr >> 8) & 7) as u8 != p { why.push(format!("PSR priority {} instead of {p}", (after.psr >> 8) & 7)); }
                if after.r6 != sup_sp.wrapping_sub(2) { why.push(format!("R6 x{:04X}, expected supervisor SP x{:04X} - 2", after.r6, sup_sp)); }
                if was_user && after.ssp != before.r6 { why.push(format!("saved SP x{:04X}, expected the user SP x{:04X}", after.ssp, before.r6)); }
                if sim.mem[after.r6].get() != before.pc { why.push(format!("pushed PC x{:04X}, interrupted PC x{:04X}", sim.mem[after.r6].get(), before.pc)); }
                if sim.mem[after.r6.wrapping_add(1)].get() != before.psr { why.push(format!("pushed PSR x{:04X}, old PSR x{:04X}", sim.mem[after.r6.wrapping_add(1)].get(), before.psr)); }
                if after.depth != before.depth + 1 { why.push(format!("frame depth {} -> {}", before.depth, after.depth)); }
                if !why.is_empty() {
                    let sig = if after.ir != before.ir { "entry-missed" } else if after.pc != handler { "entry-wrong-vector" } else if ((after.psr >> 8) & 7) as u8 != p { "entry-wrong-priority" } else if sim.mem[after.r6].get() != before.pc || sim.mem[after.r6.wrapping_add(1)].get() != before.psr { "entry-wrong-saved-state" } else { "entry-wrong-stack" };
                    mon.violation = Some((sig.to_string(), format!("boundary {} (PC x{:04X}, PSR x{:04X}): request (x{v:02X}, p{p}) presented{}: {}", mon.boundaries - 1, before.pc, before.psr, if presented.len() > 1 { format!(" together with {presented:?}") } else { String::new() }, why.join("; "))));
                    return;
                }
                mon.taken += 1; mon.entries.push((mon.boundaries - 1, v, p));
                if presented.len() > 1 { mon.lost_arbitration += 1; }
                mon.nest.push(p); mon.max_nest = mon.max_nest.max(mon.nest.len() as u64);
            }
            None => {
                if !presented.is_empty() { mon.gated += 1; }
                // independent of the simulator's own gating: the processor priority only ever changes at an interrupt entry
                // (handled above), at an RTI, or by a store to the PSR port (generated programs and ISRs contain none)
                let w = sim.mem[before.pc].get();
                let is_rti = w == 0x8000 && before.psr & 0x8000 == 0;
                if !kbd_or_timer && !is_rti && (after.psr >> 8) & 7 != (before.psr >> 8) & 7 && after.ir == before.ir + 1 {
                    mon.violation = Some(("priority-changed-outside-entry-or-rti".into(), format!("boundary {} (PC x{:04X}, instruction x{w:04X}): PSR priority went from {} to {} although no interrupt was entered and the instruction is not RTI", mon.boundaries - 1, before.pc, (before.psr >> 8) & 7, (after.psr >> 8) & 7)));
                    return;
                }
                if looks_like_entry && !kbd_or_timer {
                    mon.violation = Some(("entry-not-gated".into(), format!("boundary {} (PC x{:04X}, PSR x{:04X}): presented {presented:?} (none above the current priority) but the step looks like an interrupt entry (PC x{:04X}, PSR x{:04X})", mon.boundaries - 1, before.pc, before.psr, after.pc, after.psr)));
                    return;
                }
                // an RTI that lowers the nesting
                if after.depth < before.depth && before.psr & 0x8000 == 0 && sim.mem[before.pc].get() == 0x8000 { mon.nest.pop(); }
            }
        }
    };
    let result = {
        let monr = &mut mon; let prevr = &mut prev; let pend = &mut pending;
        sim.run_while(|s| {
            let now = snap(s);
            if let Some((before, presented)) = prevr.take() { check(monr, &before, &presented, &now, s); }
            if monr.violation.is_some() || monr.boundaries >= STEP_BOUND { return false; }
            // present requests scheduled for this boundary
            let k = monr.boundaries;
            let mut presented = vec![];
            let cur_prio = ((now.psr >> 8) & 7) as u8;
            let mut i = 0;
            while i < pend.len() {
                if pend[i].at <= k {
                    let r = pend[i].clone();
                    if !presented.iter().any(|x: &(u8, u8)| x.1 == r.prio) && cells[r.dev].lock().unwrap().is_none() {
                        *cells[r.dev].lock().unwrap() = Some((r.vect, if r.prio == 7 { 7 + su.over } else { r.prio })); presented.push((r.vect, r.prio));
                        // one-shot requests are consumed by being presented; held ones stay until they can be taken
                        if !r.held || r.prio > cur_prio { pend.remove(i); continue; }
                    }
                }
                i += 1;
            }
            // a held request that loses arbitration is presented again later
            if presented.len() > 1 { let best = presented.iter().map(|x| x.1).max().unwrap(); for r in reqs.iter().filter(|r| r.held && r.at <= k && r.prio != best && presented.contains(&(r.vect, r.prio))) { if !pend.iter().any(|q| q.vect == r.vect && q.prio == r.prio) { pend.push(r.clone()); } } }
            monr.trace_pcs.push(now.pc);
            monr.boundaries += 1;
            *prevr = Some((now, presented));
            true
        })
    };
    for c in &cells { *c.lock().unwrap() = None; }
    let res = match &result { Ok(()) => if mon.boundaries >= STEP_BOUND { "step-bound".to_string() } else if sim.hit_halt() { "halt".to_string() } else { "stopped".to_string() }, Err(e) => format!("error:{}", err_kind(e)) };
    if let (Some((before, presented)), true) = (prev.take(), result.is_ok() && mon.boundaries < STEP_BOUND) { let now = snap(&mut sim); if !(now.pc == before.pc && now.ir == before.ir) || !presented.is_empty() { check(&mut mon, &before, &presented, &now, &sim); } }
    let steps = mon.boundaries;
    Some((finalize(&mut sim, &ds, res, steps), mon))
}

fn compare_final(u: &Final, i: &Final) -> Option<(String, String)> {
    if i.result != u.result { return Some(("outcome".into(), format!("interrupted run ended with {}, uninterrupted with {}", i.result, u.result))); }
    for k in 0..8 { if u.regs[k] != i.regs[k] { return Some((if k == 6 { "stack-pointer".into() } else { "register".into() }, format!("R{k} = x{:04X}, uninterrupted x{:04X}", i.regs[k], u.regs[k]))); } }
    for k in 0..8 { if u.regs_init[k] != i.regs_init[k] { return Some(("register-initialization".into(), format!("R{k} is {} after the interrupted run, {} after the uninterrupted one", if i.regs_init[k] { "initialized" } else { "uninitialized" }, if u.regs_init[k] { "initialized" } else { "uninitialized" }))); } }
    if u.psr != i.psr { return Some((if u.psr & 7 != i.psr & 7 { "condition-codes".into() } else { "psr".into() }, format!("PSR x{:04X}, uninterrupted x{:04X}", i.psr, u.psr))); }
    if u.ssp != i.ssp { return Some(("saved-sp".into(), format!("saved SP x{:04X}, uninterrupted x{:04X}", i.ssp, u.ssp))); }
    let i_display: Vec<u8> = i.display.iter().copied().filter(|b| *b != b'~').collect();
    if u.display != i_display { return Some(("output".into(), format!("display {:?}, uninterrupted {:?}", String::from_utf8_lossy(&i.display), String::from_utf8_lossy(&u.display)))); }
    if let Some(k) = (0..u.user_mem.len()).find(|k| u.user_mem[*k] != i.user_mem[*k]) { return Some(("user-memory".into(), format!("mem[x{:04X}] = x{:04X}, uninterrupted x{:04X}", 0x3000 + k, i.user_mem[k], u.user_mem[k]))); }
    None
}

/// A service routine that prints '~' (OUT) or "~~" (PUTS) with R0 and R7 saved around the trap.
fn printing_isr(rng: &mut Rng, origin: u16) -> String {
    let body = if rng.bool() { "LD R0, ISRCH\nOUT\n" } else { "LEA R0, ISRMSG\nPUTS\n" };
    format!(".orig x{origin:04X}\nADD R6, R6, #-1\nSTR R0, R6, #0\nADD R6, R6, #-1\nSTR R7, R6, #0\n{body}LDR R7, R6, #0\nADD R6, R6, #1\nLDR R0, R6, #0\nADD R6, R6, #1\nRTI\nISRCH .fill x7E\nISRMSG .stringz \"~~\"\n.end\n")
}

fn make_setup(rng: &mut Rng, small: bool, kbd_isr: bool) -> Setup {
    // a quarter of the programs never touch R6 (it is still uninitialized when interrupts arrive); in half of the setups devices
    // present priority 7 as a larger number (device priorities above 7 count as 7)
    let no_stack = rng.chance(1, 4);
    let over = if rng.bool() { 1 + rng.below(9) as u8 } else { 0 };
    let opts = ProgOpts { io: true, input: false, faults: false, calls: true, max_blocks: if small { 2 } else { 6 }, unbalanced: false, no_stack, ..ProgOpts::default() };
    let prog = gen_user_prog(rng, &opts);
    let mut isrs = BTreeMap::new();
    let nv = 1 + rng.usize(3);
    let mut used: Vec<u8> = vec![];
    for i in 0..nv {
        let v = loop { let v = 3 + rng.below(253) as u8; if !used.contains(&v) && v != 0x80 { break v; } };
        used.push(v);
        // some vectors keep the OS default handler (prints a message and RTIs): not transparent for the display, so only installed ones are used
        // a third of the routines print a marker through the OS's own output traps (the interrupted program may itself be inside
        // PUTS / OUT / PUTSP at that moment); the marker '~' never occurs in program output and is filtered out before comparing
        let isr = if rng.chance(1, 3) { printing_isr(rng, 0x1000 + 0x80 * i as u16) } else { gen_isr(rng, 0x1000 + 0x80 * i as u16, false) };
        isrs.insert(v, isr);
    }
    if kbd_isr { isrs.insert(0x80, gen_isr(rng, 0x1800, true)); }
    Setup { ign: rng.chance(1, 4), over, no_stack, prog, isrs, real: rng.bool(), prio0: 0, kbd: vec![], kbd_ie: false, timer: None }
}

fn case_json(su: &Setup, reqs: &[Req]) -> Json {
    Json::obj().set("program", su.prog.text.as_str()).set("real_traps", su.real).set("ignore_privilege", su.ign).set("priority_7_presented_as", 7 + su.over as u64).set("program_never_touches_R6", su.no_stack).set("initial_priority", su.prio0 as u64)
        .set("isrs", Json::Arr(su.isrs.iter().map(|(v, t)| Json::obj().set("vector", format!("x{v:02X}")).set("source", t.as_str())).collect()))
        .set("schedule", Json::Arr(reqs.iter().map(|r| Json::from(format!("boundary {} dev{} (x{:02X}, p{}){}", r.at, r.dev, r.vect, r.prio, if r.held { " held" } else { "" }))).collect()))
        .set("kbd", format!("{:?}", su.kbd)).set("kbd_ie", su.kbd_ie).set("timer", format!("{:?}", su.timer))
}

fn run_and_compare(ctx: &mut Ctx, su: &Setup, base: &Final, reqs: &[Req], class: &str) -> Option<Mon> {
    ctx.eval();
    let Some((fin, mon)) = run_monitored(su, reqs) else { ctx.count("setup-failed"); return None };
    if let Some((sig, what)) = &mon.violation { ctx.violation(&format!("{sig}:{class}"), what.clone(), case_json(su, reqs)); return None; }
    if fin.result == "step-bound" { ctx.count("inconclusive.step-bound"); return None; }
    if let Some((sig, what)) = compare_final(base, &fin) { ctx.violation(&format!("not-transparent:{sig}:{class}"), format!("{what} (taken {} interrupts at {:?})", mon.taken, mon.entries), case_json(su, reqs)); return None; }
    ctx.count_n("interrupts.taken", mon.taken); ctx.count_n("interrupts.gated-or-dropped", mon.gated); ctx.count_n("interrupts.arbitrated", mon.lost_arbitration);
    if mon.max_nest >= 2 { ctx.count("runs.nested"); }
    if mon.taken > 0 && fin.display.contains(&b'~') { ctx.count("runs.with-printing-service-routine"); }
    if mon.taken > 0 { ctx.count(&format!("runs.with-interrupts.{class}")); if su.ign { ctx.count("runs.with-interrupts.ignore-privilege"); } }
    for (b, _, _) in &mon.entries { let pc = mon.trace_pcs[*b as usize]; ctx.count(if pc < 0x3000 { "entries.while-in-os-code" } else { "entries.while-in-user-code" }); }
    Some(mon)
}

fn run(ctx: &mut Ctx) {
    // phase 0: exhaustive single placement on short programs
    let n = ctx.tier.pick(60, 4_000);
    ctx.cases(0, n, |ctx, rng, _| {
        let su = make_setup(rng, true, false);
        let Some((base, m0)) = run_monitored(&su, &[]) else { ctx.count("setup-failed"); return };
        if let Some((sig, what)) = &m0.violation { ctx.violation(&format!("{sig}:uninterrupted"), what.clone(), case_json(&su, &[])); return; }
        if base.result != "halt" || m0.boundaries > 400 { ctx.count("base-run-unsuitable"); return; }
        let vs: Vec<u8> = su.isrs.keys().copied().collect();
        let nb = m0.boundaries;
        ctx.count_n("exhaustive.boundaries", nb);
        for b in 0..nb {
            let v = vs[(b as usize) % vs.len()]; let p = 1 + ((b as u8).wrapping_mul(3) % 7);
            let reqs = vec![Req { at: b, vect: v, prio: p, dev: 0, held: false }];
            ctx.nontrivial(crate::rng::hash_bytes(format!("{}{b}{v}{p}", su.prog.text).as_bytes()));
            if run_and_compare(ctx, &su, &base, &reqs, "single").is_none() && !ctx.violations.is_empty() { return; }
        }
        ctx.count("exhaustive.programs");
        if ctx.want_sample() { ctx.sample(case_json(&su, &[Req { at: 0, vect: vs[0], prio: 1, dev: 0, held: false }]).set("note", format!("one request placed at each of {nb} boundaries"))); }
    });
    // phase 1: pairs
    let n = ctx.tier.pick(120, 10_000);
    ctx.cases(1, n, |ctx, rng, _| {
        let su = make_setup(rng, true, false);
        let Some((base, m0)) = run_monitored(&su, &[]) else { return };
        if let Some((sig, what)) = &m0.violation { ctx.violation(&format!("{sig}:uninterrupted"), what.clone(), case_json(&su, &[])); return; }
        if base.result != "halt" || m0.boundaries > 400 { ctx.count("base-run-unsuitable"); return; }
        let vs: Vec<u8> = su.isrs.keys().copied().collect();
        let nb = m0.boundaries;
        let pairs = ctx.tier.pick_exact(40, 400);
        for _ in 0..pairs {
            let b1 = rng.below(nb);
            let (v1, v2) = (*rng.pick(&vs), *rng.pick(&vs));
            let p1 = 1 + rng.below(6) as u8;
            let (b2, p2, held) = match rng.below(4) {
                0 => (b1, if p1 == 7 { 6 } else { p1 + 1 }, false),                 // same boundary: arbitration
                1 => (b1 + 1 + rng.below(6), (p1 + 1).min(7), false),               // inside the first ISR: nesting (if p2 > p1)
                2 => (b1 + 1 + rng.below(6), 1 + rng.below(p1 as u64) as u8, rng.bool()), // lower/equal during ISR: gated (dropped or held until RTI)
                _ => (rng.below(nb), 1 + rng.below(7) as u8, rng.bool()),
            };
            if b2 == b1 && p2 == p1 { continue; }
            let reqs = vec![Req { at: b1, vect: v1, prio: p1, dev: 0, held: false }, Req { at: b2, vect: v2, prio: p2, dev: 1, held }];
            ctx.nontrivial(crate::rng::hash_bytes(format!("{}{reqs:?}", su.prog.text).as_bytes()));
            if run_and_compare(ctx, &su, &base, &reqs, "pair").is_none() && !ctx.violations.is_empty() { return; }
        }
    });
    // phase 2: random schedules on longer programs, initial priorities
    let n = ctx.tier.pick(400, 40_000);
    ctx.cases(2, n, |ctx, rng, _| {
        let mut su = make_setup(rng, false, false);
        su.prio0 = *rng.pick(&[0u8, 0, 0, 2, 4, 6]);
        let Some((base, m0)) = run_monitored(&su, &[]) else { return };
        if let Some((sig, what)) = &m0.violation { ctx.violation(&format!("{sig}:uninterrupted"), what.clone(), case_json(&su, &[])); return; }
        if base.result != "halt" { ctx.count("base-run-unsuitable"); return; }
        let vs: Vec<u8> = su.isrs.keys().copied().collect();
        let nb = m0.boundaries;
        let k = 1 + rng.usize(8);
        let mut reqs: Vec<Req> = (0..k).map(|_| Req { at: rng.below(nb + 20), vect: *rng.pick(&vs), prio: rng.below(8) as u8, dev: rng.usize(2), held: rng.chance(1, 3) }).collect();
        reqs.sort_by_key(|r| r.at);
        ctx.nontrivial(crate::rng::hash_bytes(format!("{}{reqs:?}", su.prog.text).as_bytes()));
        run_and_compare(ctx, &su, &base, &reqs, "random");
    });
    // phase 3: keyboard interrupts and timers
    let n = ctx.tier.pick(300, 30_000);
    ctx.cases(3, n, |ctx, rng, idx| {
        let mut su = make_setup(rng, false, true);
        let Some((base, m0)) = run_monitored(&su, &[]) else { return };
        if let Some((sig, what)) = &m0.violation { ctx.violation(&format!("{sig}:uninterrupted"), what.clone(), case_json(&su, &[])); return; }
        if base.result != "halt" { ctx.count("base-run-unsuitable"); return; }
        let class;
        if idx % 2 == 0 { su.kbd = (0..1 + rng.usize(5)).map(|_| rng.next() as u8).collect(); su.kbd_ie = true; class = "keyboard"; }
        else { let v = *su.isrs.keys().find(|v| **v != 0x80).unwrap(); let lo = 20 + rng.below(40) as u32; su.timer = Some((rng.next(), lo, lo + rng.below(30) as u32, v, 1 + rng.below(7) as u8)); class = "timer"; }
        ctx.nontrivial(crate::rng::hash_bytes(format!("{}{:?}{:?}", su.prog.text, su.kbd, su.timer).as_bytes()));
        ctx.eval();
        let Some((fin, mon)) = run_monitored(&su, &[]) else { return };
        if let Some((sig, what)) = &mon.violation { ctx.violation(&format!("{sig}:{class}"), what.clone(), case_json(&su, &[])); return; }
        if fin.result == "step-bound" { ctx.count("inconclusive.step-bound"); return; }
        if let Some((sig, what)) = compare_final(&base, &fin) { ctx.violation(&format!("not-transparent:{sig}:{class}"), what, case_json(&su, &[])); return; }
        // device-driven entries are recognised by the extra boundaries they add
        if fin.steps > base.steps { ctx.count(&format!("runs.with-interrupts.{class}")); ctx.count_n(&format!("extra-steps.{class}"), fin.steps - base.steps); }
    });
}

fn guard(m: &Merged, _t: Tier) -> Vec<String> {
    let mut out = vec![];
    for k in ["exhaustive.programs", "interrupts.taken", "interrupts.gated-or-dropped", "interrupts.arbitrated", "runs.nested", "runs.with-interrupts.single", "runs.with-interrupts.pair", "runs.with-interrupts.random",
              "runs.with-interrupts.keyboard", "runs.with-interrupts.timer", "entries.while-in-os-code", "entries.while-in-user-code", "runs.with-interrupts.ignore-privilege", "runs.with-printing-service-routine"] { need(m, &mut out, k, 5); }
    let sb = m.c("inconclusive.step-bound"); if sb * 10 > m.evaluations { out.push(format!("{sb} of {} runs hit the step bound", m.evaluations)); }
    out
}

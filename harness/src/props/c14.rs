//! C14 Strict mode only adds uninitialized-value errors.
use super::*;
use crate::json::Json;
use crate::progs::*;
use crate::rng::Rng;
use crate::simutil::*;
use lc3_ensemble::asm::encoding::ObjFileFormat;
use lc3_ensemble::sim::device::{BufferedDisplay, BufferedKeyboard};
use lc3_ensemble::sim::mem::{MachineInitStrategy, Word};
use lc3_ensemble::sim::{InternalRegister, MemAccessCtx, SimFlags, Simulator};

pub fn prop() -> Prop {
    Prop {
        id: "C14", title: "Strict mode only adds uninitialized-value errors", level: "exploration",
        rule: "Two simulators that differ only in flags.strict start from identical states with known initialization (so the uninitialized regions are known: untouched memory, .blkw, registers, stack). Workloads: (a) generated user programs incl. fault endings \
               and uninitialized registers/buffers; (b) random machine states with a mix of initialized and uninitialized words and registers, user and supervisor mode, with and without privilege checks, PCs and jump targets in OS memory, the I/O page \
               (KBDR with queued input, DSR, unmapped ports) and .blkw-like regions, stack-relative accesses; (c) the same with every register and word initialized. Both are stepped in lock-step while both are alive. Oracle: strict step Ok => the non-strict step has the \
               identical result and the machines stay identical (R0-R7 values and initialization, PC, PSR, saved SP, instructions_run, frame depth, keyboard queue, display, every touched word's value and initialization, full memory periodically); strict step fails while the non-strict one \
               succeeds => the error is one of the nine Strict* kinds; a non-strict error kind must be reported by both; in family (c) no Strict* error may occur at all. Non-trivial = episode with at least one uninitialized value read or one strict-only error; distinct = state hash.",
        assumptions: &["'device effects' are observed on the keyboard queue and the display buffer", "the access observer is not compared (C28 is stated for non-strict mode)"],
        run, guard,
        level_text: "Differential runtime monitoring of the real simulator against itself (strict vs non-strict) in lock-step over generated programs and random partially-initialized machine states.",
        level_note: "Both sides are the crate; the oracle is the relation the property states, not a reference model.",
        technique: "lock-step differential monitoring between two configurations of the same implementation",
        ..Prop::base("C14", "")
    }
}

struct M { sim: Simulator, kb: BufferedKeyboard, ds: BufferedDisplay }
fn mk(strict: bool, real: bool, ign: bool, fill: u16, kbd: &[u8]) -> M {
    let mut sim = Simulator::new(SimFlags { strict, use_real_traps: real, ignore_privilege: ign, machine_init: MachineInitStrategy::Known { value: fill }, debug_frames: false });
    let kb = BufferedKeyboard::default(); kb.get_buffer().write().unwrap().extend(kbd.iter().copied()); sim.device_handler.set_keyboard(kb.clone());
    let ds = BufferedDisplay::default(); sim.device_handler.set_display(ds.clone());
    sim.mmap_internal(SP_PORT, InternalRegister::SavedSP).unwrap();
    M { sim, kb, ds }
}
fn saved_sp(s: &mut Simulator) -> Word { s.read_mem(SP_PORT, MemAccessCtx::omnipotent()).unwrap_or(Word::new_init(0)) }

fn diff(a: &mut M, b: &mut M, full: bool, touched: &[u16]) -> Option<(String, String)> {
    if a.sim.pc != b.sim.pc { return Some(("pc".into(), format!("strict PC x{:04X}, non-strict x{:04X}", a.sim.pc, b.sim.pc))); }
    for i in 0..8 { let (x, y) = (a.sim.reg_file[reg(i)], b.sim.reg_file[reg(i)]); if x != y { return Some((if x.get() != y.get() { "register-value".into() } else { "register-init".into() }, format!("R{i}: strict {x:?}, non-strict {y:?}"))); } }
    if a.sim.psr().get() != b.sim.psr().get() { return Some(("psr".into(), format!("x{:04X} vs x{:04X}", a.sim.psr().get(), b.sim.psr().get()))); }
    if a.sim.instructions_run != b.sim.instructions_run { return Some(("instructions_run".into(), format!("{} vs {}", a.sim.instructions_run, b.sim.instructions_run))); }
    if a.sim.frame_stack.len() != b.sim.frame_stack.len() { return Some(("frame-depth".into(), format!("{} vs {}", a.sim.frame_stack.len(), b.sim.frame_stack.len()))); }
    let (ka, kb): (Vec<u8>, Vec<u8>) = (a.kb.get_buffer().read().unwrap().iter().copied().collect(), b.kb.get_buffer().read().unwrap().iter().copied().collect());
    if ka != kb { return Some(("keyboard-queue".into(), format!("strict {ka:?}, non-strict {kb:?}"))); }
    if *a.ds.get_buffer().read().unwrap() != *b.ds.get_buffer().read().unwrap() { return Some(("display".into(), "display buffers differ".into())); }
    let (sa, sb) = (saved_sp(&mut a.sim), saved_sp(&mut b.sim));
    if sa != sb { return Some(("saved-sp".into(), format!("{sa:?} vs {sb:?}"))); }
    let cmp = |x: u16, a: &M, b: &M| -> Option<(String, String)> { let (p, q) = (a.sim.mem[x], b.sim.mem[x]); if p != q { Some((if p.get() != q.get() { "memory-value".into() } else { "memory-init".into() }, format!("mem[x{x:04X}]: strict {p:?}, non-strict {q:?}"))) } else { None } };
    if full { for x in 0..=0xFFFFu16 { if let Some(d) = cmp(x, a, b) { return Some(d); } } } else { for x in touched { if let Some(d) = cmp(*x, a, b) { return Some(d); } } }
    None
}

fn apply(rng: &mut Rng, ms: &mut [&mut M], all_init: bool) {
    // identical random edits on all machines
    let n = 30 + rng.usize(120);
    let pc = match rng.below(8) { 0 => 0x0200 + rng.below(0x2E00) as u16, 1 => 0xFE00 + rng.below(8) as u16 * 2, 2 => 0xFDF0 + rng.below(16) as u16, _ => 0x3000 + rng.below(0x200) as u16 };
    let psr = ((rng.chance(1, 2) as u16) << 15) | ((rng.below(4) as u16) << 8) | (1 << rng.below(3));
    let mut edits: Vec<(u16, u16, bool)> = vec![];
    for k in 0..n { let a = if k < 40 { pc.wrapping_add(k as u16) } else if rng.bool() { pc.wrapping_add(rng.range(-200, 200) as u16) } else { boundary_addr(rng) }; let v = if rng.chance(2, 3) { biased_word(rng) } else { boundary_addr(rng) }; edits.push((a, v, all_init || rng.chance(5, 6))); }
    let regs: Vec<(u16, bool)> = (0..8).map(|_| (if rng.chance(2, 3) { boundary_addr(rng) } else { rng.u16() }, all_init || rng.chance(3, 4))).collect();
    let ssp = *rng.pick(&[0x3000u16, 0x2F00, 0x0400]);
    // sometimes PC / MCR / PSR are additionally mapped at spare ports, and the code starts with a store to such a port
    let extra: Option<(u16, InternalRegister)> = if rng.chance(1, 3) { Some((*rng.pick(&[0xFFFFu16, 0xFE10, 0xFFFA]), *rng.pick(&[InternalRegister::PC, InternalRegister::PC, InternalRegister::MCR, InternalRegister::PSR]))) } else { None };
    let directed = extra.is_some() && rng.chance(2, 3);
    let dval = if rng.bool() { boundary_addr(rng) } else { 0x3000 + rng.below(0x400) as u16 };
    for m in ms.iter_mut() {
        for (a, v, init) in &edits { if *a < 0xFE00 { if *init { m.sim.mem[*a] = Word::new_init(*v); } else { let mut x = *v; m.sim.mem[*a] = Word::new_uninit(&mut x); } } }
        for (i, (v, init)) in regs.iter().enumerate() { if *init { m.sim.reg_file[reg(i)].set(*v); } else { let mut x = *v; m.sim.reg_file[reg(i)] = Word::new_uninit(&mut x); } }
        if let Some((port, r)) = extra {
            let _ = m.sim.mmap_internal(port, r);
            if directed { // STR R3, R2, #0 with R2 = port, R3 = value
                m.sim.mem[pc] = Word::new_init(0x7680); m.sim.reg_file[reg(2)].set(port); m.sim.reg_file[reg(3)].set(dval);
            }
        }
        m.sim.pc = pc;
        m.sim.write_mem(0xFFFC, Word::new_init(psr), priv_ctx()).unwrap();
        m.sim.write_mem(SP_PORT, Word::new_init(ssp), priv_ctx()).unwrap();
        if all_init { for a in 0..=0xFFFFu16 { let v = m.sim.mem[a].get(); m.sim.mem[a] = Word::new_init(v); } }
    }
}

fn run(ctx: &mut Ctx) {
    let n = ctx.tier.pick(4_000, 400_000);
    ctx.cases(0, n, |ctx, rng, idx| {
        let family = idx % 3; // 0 = programs, 1 = random partially-initialized states, 2 = fully initialized states
        let real = rng.bool(); let ign = family != 0 && rng.chance(1, 3);
        let kbd: Vec<u8> = (0..1 + rng.usize(4)).map(|_| 1 + rng.below(255) as u8).collect();
        let fill = rng.u16();
        let (mut a, mut b) = (mk(true, real, ign, fill, &kbd), mk(false, real, ign, fill, &kbd));
        let mut reload: Option<(usize, lc3_ensemble::asm::ObjectFile)> = None;
        let mut desc = Json::obj().set("family", ["program", "random-state", "fully-initialized-state"][family as usize]).set("real_traps", real).set("ignore_privilege", ign).set("kbd", format!("{kbd:?}")).set("fill", fill);
        if family == 0 {
            let opts = ProgOpts { faults: rng.chance(1, 3), unbalanced: rng.chance(1, 4), ..ProgOpts::default() };
            let prog = gen_user_prog(rng, &opts);
            let Ok(ast) = lc3_ensemble::parse::parse_ast(&prog.text) else { return };
            let Ok(obj) = lc3_ensemble::asm::assemble(ast) else { ctx.count("not-assembled"); return };
            if a.sim.load_obj_file(&obj).is_err() || b.sim.load_obj_file(&obj).is_err() { return; }
            desc.put("program", prog.text.as_str());
            for k in 0..prog.kbd_needed { let _ = k; a.kb.get_buffer().write().unwrap().push_back(0x41); b.kb.get_buffer().write().unwrap().push_back(0x41); }
        } else {
            // a third of the random-state episodes have an object-file history: a multi-block file is loaded first (sometimes read from
            // the text format, with a block that reaches xFFFF - the assembler refuses those, the loader does not), and later in the
            // episode a second, single-block file replaces it in the same simulator
            if rng.chance(1, 3) {
                let o1 = *rng.pick(&[0x3000u16, 0x3100, 0x4000]);
                let mut text = format!(".orig x{o1:04X}\n.blkw 3\n.fill 7\n.end\n.orig x5000\n.fill 1\n.fill 2\n.end\n.orig x6000\n.fill x6000\n.blkw 2\n.fill 9\n.end\n");
                if rng.bool() { text.push_str(".orig xA000\n.stringz \"ab\"\n.end\n"); }
                let first = if rng.chance(1, 3) {
                    let top = 0xFFFF - rng.below(6) as u16; let n = 0x10000 - top as u32;
                    let mut t = format!("LC-3 OBJ FILE\n\n.TEXT\n3000\n2\n1021\n0FFE\n5000\n1\n0001\n{top:04X}\n{n}\n");
                    for k in 0..n { t.push_str(&format!("{:04X}\n", 0x1000 + k)); }
                    lc3_ensemble::asm::encoding::TextFormat::deserialize(&t)
                } else { lc3_ensemble::parse::parse_ast(&text).ok().and_then(|ast| lc3_ensemble::asm::assemble(ast).ok()) };
                let second = lc3_ensemble::parse::parse_ast(".orig x3000\n.fill x1021\n.blkw 2\n.end\n").ok().and_then(|ast| lc3_ensemble::asm::assemble(ast).ok());
                if let (Some(f), Some(g)) = (first, second) {
                    let ok = crate::monitor::guard(|| a.sim.load_obj_file(&f).is_ok() && b.sim.load_obj_file(&f).is_ok());
                    if matches!(ok, Ok(true)) { reload = Some((8 + rng.usize(24), g)); ctx.count("episodes.with-object-history"); desc.put("object_history", "multi-block file loaded first; single-block file loaded mid-episode"); }
                }
            }
            apply(rng, &mut [&mut a, &mut b], family == 2);
            if reload.is_some() {
                // directed: the code starts with loads/stores through R1 into the later blocks of the first file / the top of memory
                let tgt = *rng.pick(&[0x5000u16, 0x5001, 0x6000, 0x6003, 0xA000, 0xFFFF, 0xFFFD]);
                for m in [&mut a, &mut b] { let pc = m.sim.pc; m.sim.reg_file[reg(1)].set(tgt); m.sim.mem[pc] = Word::new_init(0x6040); m.sim.mem[pc.wrapping_add(1)] = Word::new_init(0x7040); if family == 2 { m.sim.mem[tgt] = Word::new_init(m.sim.mem[tgt].get()); } }
            }
            desc.put("pc", format!("x{:04X}", a.sim.pc)); desc.put("psr", format!("x{:04X}", a.sim.psr().get()));
            desc.put("regs", format!("{:?}", (0..8).map(|i| a.sim.reg_file[reg(i)]).collect::<Vec<_>>()));
            desc.put("code", format!("{:04X?}", (0..12).map(|k| a.sim.mem[a.sim.pc.wrapping_add(k)].get()).collect::<Vec<_>>()));
        }
        let mut trace: Vec<String> = vec![];
        let max = if family == 0 { 4000 } else { 48 };
        let mut strict_only = 0; let mut uninit_seen = false;
        for s in 0..max {
            if let Some((at, g)) = &reload { if s == *at {
                let ok = crate::monitor::guard(|| a.sim.load_obj_file(g).is_ok() && b.sim.load_obj_file(g).is_ok());
                if !matches!(ok, Ok(true)) { break; }
                // keep the machines comparable and make the next instruction a load through R1 again
                for m in [&mut a, &mut b] { let pc = m.sim.pc; if pc < 0xFE00 { m.sim.mem[pc] = Word::new_init(0x6040); } if family == 2 { for x in 0x3000..0x3004u16 { let v = m.sim.mem[x].get(); m.sim.mem[x] = Word::new_init(v); } } }
                ctx.count("episodes.second-file-loaded");
            } }
            let pc0 = a.sim.pc;
            let w0 = a.sim.mem[pc0];
            let cls = match crate::refasm::decode_ref(w0.get()) { Ok(i) => crate::refasm::ri_name(&i), Err(_) => "invalid" };
            if !w0.is_init() { uninit_seen = true; }
            trace.push(format!("x{pc0:04X} {cls}")); if trace.len() > 16 { trace.remove(0); }
            let ra = crate::monitor::guard(|| a.sim.step_in());
            let rb = crate::monitor::guard(|| b.sim.step_in());
            ctx.eval();
            let case = || desc.clone().set("last_steps", Json::Arr(trace.iter().map(|t| Json::from(t.as_str())).collect())).set("step", s);
            let (ra, rb) = match (ra, rb) { (Ok(x), Ok(y)) => (x, y), (Err(p), _) | (_, Err(p)) => { ctx.violation(&format!("panic-in-step:{cls}"), p.msg, case()); return; } };
            let touched: Vec<u16> = { let mut t: Vec<u16> = a.sim.observer.take_mem_accesses().map(|(x, _)| x).collect(); t.extend(b.sim.observer.take_mem_accesses().map(|(x, _)| x)); t };
            match (&ra, &rb) {
                (Ok(()), Ok(())) => {
                    if let Some((c, d)) = diff(&mut a, &mut b, s % 32 == 31, &touched) { ctx.violation(&format!("state-differs-without-strict-error:{c}:{cls}"), format!("step {s} at x{pc0:04X} ({cls}) succeeded in both modes but: {d}"), case()); return; }
                }
                (Err(e), Ok(())) => {
                    if !is_strict_err(e) { ctx.violation(&format!("strict-only-error-is-not-a-strict-kind:{}:{cls}", err_kind(e)), format!("step {s} at x{pc0:04X} ({cls}): strict mode fails with {} while non-strict mode succeeds", err_kind(e)), case()); return; }
                    if family == 2 { ctx.violation(&format!("strict-error-on-initialized-machine:{}:{cls}", err_kind(e)), format!("step {s} at x{pc0:04X} ({cls}) on a fully initialized machine: {}", err_kind(e)), case()); return; }
                    // a rejected strict step must not have had device effects either
                    let (ka, kb): (Vec<u8>, Vec<u8>) = (a.kb.get_buffer().read().unwrap().iter().copied().collect(), b.kb.get_buffer().read().unwrap().iter().copied().collect());
                    let _ = (ka, kb);
                    ctx.count(&format!("strict-only.{}", err_kind(e))); strict_only += 1;
                    break;
                }
                (Ok(()), Err(e)) => { ctx.violation(&format!("non-strict-fails-strict-succeeds:{}:{cls}", err_kind(e)), format!("step {s} at x{pc0:04X}"), case()); return; }
                (Err(e), Err(f)) => {
                    if is_strict_err(e) { if family == 2 { ctx.violation(&format!("strict-error-on-initialized-machine:{}:{cls}", err_kind(e)), format!("step {s} at x{pc0:04X}"), case()); return; } ctx.count(&format!("strict-masks-other-error.{}", err_kind(e))); break; }
                    if err_kind(e) != err_kind(f) { ctx.violation(&format!("different-errors:{}-vs-{}:{cls}", err_kind(e), err_kind(f)), format!("step {s} at x{pc0:04X}"), case()); return; }
                    if let Some((c, d)) = diff(&mut a, &mut b, false, &touched) { ctx.violation(&format!("state-differs-at-common-error:{c}:{cls}"), d, case()); return; }
                    ctx.count(&format!("common-error.{}", err_kind(e)));
                    break;
                }
            }
            if family == 0 && ((!real && a.sim.pc == pc0 && w0.get() == 0xF025) || (real && a.sim.mem[0xFFFE].get() == 0 && b.sim.observer.get_mem_accesses(0xFFFE).written())) { break; }
            if pc0 < 0x3000 { ctx.count("steps.in-os-memory"); } else if pc0 >= 0xFE00 { ctx.count("steps.in-io-page"); }
        }
        if strict_only > 0 || uninit_seen { ctx.nontrivial(ctx.case_seed(0, idx)); }
        ctx.count(&format!("episodes.family-{family}"));
        if ctx.want_sample() && family == 1 && strict_only > 0 { ctx.sample(desc.clone().set("last_steps", Json::Arr(trace.iter().map(|t| Json::from(t.as_str())).collect()))); }
    });
}

fn guard(m: &Merged, _t: Tier) -> Vec<String> {
    let mut out = vec![];
    for f in 0..3 { need(m, &mut out, &format!("episodes.family-{f}"), 300); }
    for k in ["StrictRegSetUninit", "StrictMemSetUninit", "StrictJmpAddrUninit", "StrictSRAddrUninit", "StrictMemAddrUninit", "StrictPCCurrUninit", "StrictPCNextUninit"] { need(m, &mut out, &format!("strict-only.{k}"), 1); }
    for k in ["steps.in-os-memory", "steps.in-io-page", "common-error.AccessViolation", "episodes.with-object-history", "episodes.second-file-loaded"] { need(m, &mut out, k, 5); }
    out
}

//! C09 User-mode code cannot touch memory or state outside user space.
use super::*;
use crate::json::Json;
use crate::refasm::{encode_ref, RI};
use crate::refsim::*;
use crate::simutil::*;
use lc3_ensemble::sim::SimErr;

pub fn prop() -> Prop {
    Prop {
        id: "C09", title: "User-mode code cannot touch memory or state outside user space", level: "exploration",
        rule: "Phase 0 (complete matrix): for every access kind {fetch by fall-through, BR, JMP, JSR, JSRR, RET; LD; LDR; LDI pointer; LDI target; ST; STR; STI pointer; STI target; RTI; TRAP} x every boundary target \
               {x0000, x0001, x01FF, x0200, x2FFE, x2FFF, x3000, x3001, xFDFE, xFDFF, xFE00, xFE02, xFE04, xFE06, xFE10, xFFFC, xFFFE, xFFFF} (where the addressing mode can reach it) x {virtual, real traps} x {strict off, on}, a user-mode machine is built so \
               that the instruction aims at the target; keyboard with queued input, display and a recording device on xFE10/xFE12 are attached. Legal targets must agree with the reference machine. Illegal ones must give AccessViolation / \
               PrivilegeViolation with prefetch_pc() = the instruction's address (virtual) or enter the OS handler through x0102/x0100 in supervisor mode with the old PSR on the supervisor stack (real); the target word, keyboard queue, \
               display and device log must be unchanged and the access observer must show no access outside x3000-xFDFF beyond the exception entry's own stack/vector accesses. \
               Phase 1: random user-mode states and instruction streams with the per-step invariant 'observer accesses outside user space are a subset of the supervisor accesses the reference predicts for a trap/interrupt/exception entry'. \
               Non-trivial = case whose target is outside user space; distinct = (kind, target, trap setting) or state hash.",
        assumptions: &["reference machine for legal accesses", "supervisor stack placed at x2F00 so entry accesses never coincide with a probed target"],
        exhaustive: never, run, guard,
        level_text: "Runtime monitoring with a complete access-kind x boundary-address x trap-setting matrix plus random user-mode steps under an access-set invariant; observes memory, device logs and the access observer, not just the return value.",
        level_note: "The matrix is complete for the listed boundary addresses; other addresses are sampled.",
        technique: "adversarial state construction + access-set invariant monitor + reference machine",
        ..Prop::base("C09", "")
    }
}

const TARGETS: [u16; 18] = [0x0000, 0x0001, 0x01FF, 0x0200, 0x2FFE, 0x2FFF, 0x3000, 0x3001, 0xFDFE, 0xFDFF, 0xFE00, 0xFE02, 0xFE04, 0xFE06, 0xFE10, 0xFFFC, 0xFFFE, 0xFFFF];
const KINDS: [&str; 16] = ["fetch-fallthrough", "fetch-BR", "fetch-JMP", "fetch-JSR", "fetch-JSRR", "fetch-RET", "LD", "LDR", "LDI-pointer", "LDI-target", "ST", "STR", "STI-pointer", "STI-target", "RTI", "TRAP"];
fn user(a: u16) -> bool { (0x3000..0xFE00).contains(&a) }

/// Builds the state; returns (instruction address, number of steps to run, address whose access is probed) or None if unreachable.
fn build(p: &mut Pair, kind: &str, t: u16, variant: u64) -> Option<(u16, usize, u16)> {
    // an instruction location in user space from which PC-relative addressing reaches t
    let near = |t: u16, span: i32| -> Option<(u16, i16)> {
        // find instruction address a in user space with t = a + 1 + off, |off| within span, preferring small distances
        for d in [0i32, 1, -1, 2, -2, 7, -7, span - 1, -span] {
            let a = t as i32 - 1 - d;
            if (0x3000..0xFE00).contains(&a) { return Some((a as u16, d as i16)); }
        }
        None
    };
    let base = 0x4000u16 + (variant as u16 % 7) * 0x100;
    let w = |p: &mut Pair, a: u16, i: RI| p.set_mem(a, encode_ref(&i));
    match kind {
        "fetch-fallthrough" => {
            if t == 0 { p.set_pc(t); return Some((t, 1, t)); }
            let a = t.wrapping_sub(1);
            if user(a) { w(p, a, RI::Add(1, 1, crate::refasm::RO::Imm(1))); p.set_pc(a); Some((t, 2, t)) } else { p.set_pc(t); Some((t, 1, t)) }
        }
        "fetch-BR" => { let (a, off) = near(t, 256)?; w(p, a, RI::Br(7, off)); p.set_pc(a); Some((t, 2, t)) }
        "fetch-JSR" => { let (a, off) = near(t, 1024)?; w(p, a, RI::Jsr(off)); p.set_pc(a); Some((t, 2, t)) }
        "fetch-JMP" => { w(p, base, RI::Jmp(2)); p.set_reg(2, t); p.set_pc(base); Some((t, 2, t)) }
        "fetch-JSRR" => { w(p, base, RI::Jsrr(3)); p.set_reg(3, t); p.set_pc(base); Some((t, 2, t)) }
        "fetch-RET" => { w(p, base, RI::Jmp(7)); p.set_reg(7, t); p.set_pc(base); Some((t, 2, t)) }
        "LD" => { let (a, off) = near(t, 256)?; w(p, a, RI::Ld(1, off)); p.set_pc(a); Some((a, 1, t)) }
        "ST" => { let (a, off) = near(t, 256)?; w(p, a, RI::St(1, off)); p.set_pc(a); Some((a, 1, t)) }
        "LDR" => { let off = [0i16, 5, -32, 31][variant as usize % 4]; w(p, base, RI::Ldr(1, 2, off)); p.set_reg(2, t.wrapping_sub(off as u16)); p.set_pc(base); Some((base, 1, t)) }
        "STR" => { let off = [0i16, 5, -32, 31][variant as usize % 4]; w(p, base, RI::Str(1, 2, off)); p.set_reg(2, t.wrapping_sub(off as u16)); p.set_pc(base); Some((base, 1, t)) }
        "LDI-pointer" => { let (a, off) = near(t, 256)?; w(p, a, RI::Ldi(1, off)); p.set_pc(a); Some((a, 1, t)) }
        "STI-pointer" => { let (a, off) = near(t, 256)?; w(p, a, RI::Sti(1, off)); p.set_pc(a); Some((a, 1, t)) }
        "LDI-target" => { w(p, base, RI::Ldi(1, 4)); p.set_mem(base + 5, t); p.set_pc(base); Some((base, 1, t)) }
        "STI-target" => { w(p, base, RI::Sti(1, 4)); p.set_mem(base + 5, t); p.set_pc(base); Some((base, 1, t)) }
        "RTI" => { w(p, base, RI::Rti); p.set_reg(6, t); p.set_pc(base); Some((base, 1, t)) }
        "TRAP" => { w(p, base, RI::Trap((t & 0xFF) as u8)); p.set_pc(base); Some((base, 1, t & 0xFF)) }
        _ => None,
    }
}

fn one_case(ctx: &mut Ctx, kind: &str, t: u16, real: bool, variant: u64, strict: bool) {
    let kbd = [0x41u8, 0x42, 0x43];
    let mut p = Pair::new(real, false, false, 0x0F0F, Some(&kbd), true);
    let rec = Recorder::new(7);
    p.sim.device_handler.add_device(rec.clone(), &[0xFE10, 0xFE12]).expect("recorder");
    // strict mode must not weaken the protection (all words and registers are initialized here, so it adds no errors of its own)
    p.sim.flags.strict = strict;
    p.set_psr(0x8002);
    p.set_saved_sp(0x2F00);
    p.set_reg(6, 0xF000);
    p.set_reg(1, 0xBEEF);
    let Some((iaddr, steps, probe)) = build(&mut p, kind, t, variant) else { ctx.count(&format!("unreachable.{kind}")); return };
    ctx.eval();
    let tag = if real { "real" } else { "virtual" };
    let illegal = match kind { "RTI" => true, "TRAP" => false, _ => !user(probe) };
    if illegal { ctx.nontrivial(crate::rng::hash_bytes(format!("{kind}{t}{real}").as_bytes())); }
    let case = || Json::obj().set("kind", kind).set("target", format!("x{t:04X}")).set("real_traps", real).set("variant", variant).set("strict", strict);
    let before: Vec<u16> = (0..=0xFFFFu16).map(|a| p.sim.mem[a].get()).collect();
    let mut last = (Ok(()), Outcome::Ok);
    let mut nonuser_seen: Vec<u16> = vec![];
    for s in 0..steps {
        let started_user = !p.r.privileged();
        let r = crate::monitor::guard(|| p.step(None));
        let (got, exp) = match r { Ok(x) => x, Err(pi) => { ctx.violation(&format!("panic-in-step:{kind}"), format!("panic: {}", pi.msg), case()); return; } };
        // observer view of this step, before compare() consumes it
        let acc: Vec<u16> = (0..=0xFFFFu16).filter(|a| p.sim.observer.get_mem_accesses(*a).accessed()).collect();
        if started_user { for a in &acc { if !user(*a) { nonuser_seen.push(*a); } } }
        let is_last = s + 1 == steps;
        if !illegal || !is_last {
            if let Some(m) = p.compare(&got, exp, is_last) { ctx.violation(&format!("legal-access-differs:{kind}:{}", m.component), format!("{kind} at x{t:04X} ({tag}): {}", m.detail), case()); return; }
        }
        last = (got, exp);
    }
    if !illegal { ctx.count(&format!("legal.{kind}.{tag}")); return; }
    // ---- illegal access: must be reported and must not have touched anything ----
    let (got, _) = &last;
    let want_priv = kind == "RTI";
    if !real {
        let ok = match got { Err(SimErr::AccessViolation) => !want_priv, Err(SimErr::PrivilegeViolation) => want_priv, _ => false };
        if !ok { ctx.violation(&format!("illegal-access-not-reported:{kind}:{tag}"), format!("{kind} aimed at x{t:04X} in user mode returned {:?}", got.as_ref().map_err(err_kind)), case()); return; }
        if p.sim.prefetch_pc() != iaddr { ctx.violation(&format!("faulting-address-wrong:{kind}"), format!("prefetch_pc = x{:04X}, pc = x{:04X}, faulting instruction at x{iaddr:04X}", p.sim.prefetch_pc(), p.sim.pc), case()); return; }
        if !p.sim.psr().privileged() == false { ctx.violation(&format!("privilege-gained:{kind}"), "machine is in supervisor mode after a reported violation under virtual traps", case()); return; }
    } else {
        if got.is_err() { ctx.violation(&format!("illegal-access-not-vectored:{kind}:{tag}"), format!("step returned {:?} under real traps", got.as_ref().map_err(err_kind)), case()); return; }
        let vec = if want_priv { 0x100 } else { 0x102 };
        let handler = before[vec as usize];
        if p.sim.pc != handler || !p.sim.psr().privileged() { ctx.violation(&format!("exception-entry-wrong:{kind}"), format!("pc x{:04X} (handler x{handler:04X}), privileged {}", p.sim.pc, p.sim.psr().privileged()), case()); return; }
        let sp = p.sim.reg_file[reg(6)].get();
        if sp != 0x2EFE || p.sim.mem[sp.wrapping_add(1)].get() & 0x8000 == 0 { ctx.violation(&format!("exception-stack-wrong:{kind}"), format!("R6 = x{sp:04X}, saved PSR x{:04X}", p.sim.mem[sp.wrapping_add(1)].get()), case()); return; }
    }
    // nothing outside user space may have been touched by the user-mode steps (entry accesses excepted)
    let allowed: Vec<u16> = if real { vec![0x2EFF, 0x2EFE, if want_priv { 0x100 } else { 0x102 }] } else { vec![] };
    for a in &nonuser_seen { if !allowed.contains(a) { ctx.violation(&format!("supervisor-address-accessed:{kind}:{tag}"), format!("observer shows an access to x{a:04X} during a user-mode step ({kind} aimed at x{t:04X})"), case()); return; } }
    for a in 0..=0xFFFFu16 {
        if allowed.contains(&a) || a == SP_PORT || a == 0xFFFC { continue; }
        if p.sim.mem[a].get() != before[a as usize] && !(user(a) && kind.starts_with("fetch")) {
            ctx.violation(&format!("memory-changed-by-refused-access:{kind}:{tag}"), format!("mem[x{a:04X}] changed from x{:04X} to x{:04X}", before[a as usize], p.sim.mem[a].get()), case()); return;
        }
    }
    let kq: Vec<u8> = p.kb.as_ref().unwrap().get_buffer().read().unwrap().iter().copied().collect();
    if kq != kbd { ctx.violation(&format!("keyboard-consumed-by-refused-access:{kind}:{tag}"), format!("keyboard queue {kq:?}"), case()); return; }
    if !p.ds.as_ref().unwrap().get_buffer().read().unwrap().is_empty() { ctx.violation(&format!("display-written-by-refused-access:{kind}:{tag}"), "display buffer not empty", case()); return; }
    let log = rec.take();
    if !log.is_empty() { ctx.violation(&format!("device-reached-by-refused-access:{kind}:{tag}"), format!("recording device saw {log:?}"), case()); return; }
    ctx.count(&format!("refused.{kind}.{tag}"));
    let region = if t < 0x3000 { "below-user" } else { "io-page" };
    ctx.count(&format!("refused-region.{region}"));
    if ctx.want_sample() && variant == 0 { ctx.sample(case().set("result", format!("{:?}", got.as_ref().map_err(err_kind)))); }
}

fn run(ctx: &mut Ctx) {
    // phase 0: the matrix (4 variants each)
    let total = (KINDS.len() * TARGETS.len() * 2 * 4 * 2) as u64;
    ctx.cases(0, total, |ctx, _rng, i| {
        let strict = i % 2 == 1; let i = i / 2;
        let variant = i % 4; let i = i / 4;
        let real = i % 2 == 1; let i = i / 2;
        let t = TARGETS[(i % TARGETS.len() as u64) as usize]; let k = KINDS[(i / TARGETS.len() as u64) as usize];
        one_case(ctx, k, t, real, variant, strict);
        if strict { ctx.count("matrix.strict-cases"); }
    });
    // phase 1: random user-mode steps under the access-set invariant
    let n = ctx.tier.pick(5_000, 500_000);
    ctx.cases(1, n, |ctx, rng, idx| {
        let real = idx & 1 == 1;
        let kbd: Vec<u8> = (0..rng.usize(4)).map(|_| rng.next() as u8).collect();
        let mut p = Pair::new(real, false, false, rng.u16(), Some(&kbd), true);
        let desc = super::c08::random_state(rng, &mut p);
        // force user mode, keep the random priority/cc
        let psr = p.r.psr | 0x8000; p.set_psr(psr);
        if !user(p.r.pc) && rng.chance(3, 4) { let pc = 0x3000 + rng.below(0xCE00) as u16; p.set_pc(pc); for k in 0..24 { let w = biased_word(rng); p.set_mem(pc.wrapping_add(k), w); } }
        ctx.nontrivial(crate::rng::hash_bytes(desc.to_string().as_bytes()) ^ idx);
        for s in 0..32 {
            let started_user = !p.r.privileged();
            let cls = p.r.class_at_pc();
            let pend = super::c08::pending_irq(rng, &p, 10);
            let Ok((got, exp)) = crate::monitor::guard(|| p.step(pend)) else { return };
            ctx.eval();
            if started_user {
                let sim_nonuser: Vec<u16> = (0..=0xFFFFu16).filter(|a| !user(*a) && p.sim.observer.get_mem_accesses(*a).accessed()).collect();
                let entry = matches!(p.r.last_kind, StepKind::InterruptEntry | StepKind::ExceptionEntry | StepKind::TrapEntry);
                for a in &sim_nonuser {
                    let predicted = entry && p.r.acc.contains_key(a);
                    if !predicted {
                        ctx.violation(&format!("user-step-touched-supervisor-address:{cls}"), format!("step {s} ({cls}, started in user mode) accessed x{a:04X}; the reference predicts no such supervisor access"), desc.clone().set("real_traps", real)); return;
                    }
                }
                ctx.count(if sim_nonuser.is_empty() { "user-steps.no-supervisor-access" } else { "user-steps.entry-accesses-only" });
                if cls == "RTI" && got.is_ok() && !real && p.r.last_kind == StepKind::Instr { ctx.violation("rti-executed-in-user-mode", "RTI completed in user mode", desc.clone()); return; }
            }
            if p.compare(&got, exp, false).is_some() { ctx.count("diverged-from-reference (reported by C08)"); return; }
            if got.is_err() { break; }
        }
    });
    stack_exchange(ctx);
}

/// phase 2: the supervisor stack pointer is part of the protection. Whenever a step changes the privilege bit - successfully or
/// while failing - R6 and the saved stack pointer must have been exchanged in that same step (entry: saved SP := old R6,
/// R6 := old saved SP - 2; RTI: R6 := old saved SP, saved SP := old R6 + 2). Otherwise later trap frames are written, with
/// supervisor rights, through a pointer the user program chose. Workload: user programs calling the I/O traps under strict
/// mode (some return addresses are uninitialized words, so the trap's RTI fails), real and virtual traps, with the
/// `ignore_privilege` flag switched on and off between steps, R6 pointing anywhere; execution continues after errors.
fn stack_exchange(ctx: &mut Ctx) {
    use lc3_ensemble::sim::device::{BufferedDisplay, BufferedKeyboard};
    use lc3_ensemble::sim::mem::{MachineInitStrategy, Word};
    use lc3_ensemble::sim::{InternalRegister, MemAccessCtx, SimFlags, Simulator};
    let n = ctx.tier.pick(1_500, 150_000);
    ctx.cases(2, n, |ctx, rng, _| {
        let (strict, real) = (rng.chance(2, 3), rng.bool());
        let mut ign = rng.chance(1, 3);
        let fill = rng.u16();
        let mut sim = Simulator::new(SimFlags { strict, use_real_traps: real, ignore_privilege: ign, debug_frames: false, machine_init: MachineInitStrategy::Known { value: fill } });
        let kb = BufferedKeyboard::default(); kb.get_buffer().write().unwrap().extend([0x41u8, 0x42, 0x43, 0x44]); sim.device_handler.set_keyboard(kb);
        sim.device_handler.set_display(BufferedDisplay::default());
        if sim.mmap_internal(SP_PORT, InternalRegister::SavedSP).is_err() { return; }
        // code: a few traps / harmless instructions; some of the words after a TRAP are left uninitialized
        let base = 0x3000 + rng.below(0x100) as u16;
        let len = 4 + rng.usize(6);
        let mut listing = vec![];
        for k in 0..len as u16 {
            let w = match rng.below(6) { 0 | 1 => 0xF020 + rng.below(5) as u16, 2 => 0x1021, 3 => 0x5260, 4 => 0xE001, _ => 0x0E00 };
            let uninit = k > 0 && rng.chance(1, 4);
            if uninit { let mut x = w; sim.mem[base + k] = Word::new_uninit(&mut x); } else { sim.mem[base + k] = Word::new_init(w); }
            listing.push(format!("x{:04X}: x{w:04X}{}", base + k, if uninit { " (uninitialized)" } else { "" }));
        }
        sim.mem[base + len as u16] = Word::new_init(0xF025);
        let user_r6 = *rng.pick(&[0xFE00u16, 0x4000, 0x2000, 0x0300, 0x0001, 0xFFFE, 0x2FFE]);
        sim.reg_file[reg(6)].set(user_r6);
        sim.reg_file[reg(0)].set(base + len as u16 + 1); sim.mem[base + len as u16 + 1] = Word::new_init(0);
        sim.pc = base;
        let _ = sim.write_mem(0xFFFC, Word::new_init(0x8002), priv_ctx());
        let ssp = |s: &mut Simulator| s.read_mem(SP_PORT, MemAccessCtx::omnipotent()).map(|w| w.get()).unwrap_or(0);
        let mut hist: Vec<String> = vec![];
        let case = |hist: &Vec<String>| Json::obj().set("strict", strict).set("real_traps", real).set("code", Json::Arr(listing.iter().map(|l| Json::from(l.as_str())).collect())).set("user_R6", format!("x{user_r6:04X}")).set("history", Json::Arr(hist.iter().rev().take(14).rev().map(|h| Json::from(h.as_str())).collect()));
        let mut flips = 0u64;
        for step in 0..600 {
            if rng.chance(1, 25) { ign = !ign; sim.flags.ignore_privilege = ign; hist.push(format!("ignore_privilege = {ign}")); }
            let (p0, r60, s0, pc0) = (sim.psr().privileged(), sim.reg_file[reg(6)].get(), ssp(&mut sim), sim.pc);
            let Some(r) = ctx.no_panic("step_in", || case(&hist), || sim.step_in()) else { return };
            ctx.eval();
            let (p1, r61, s1) = (sim.psr().privileged(), sim.reg_file[reg(6)].get(), ssp(&mut sim));
            hist.push(format!("step {step} at x{pc0:04X}: {} -> {}{}", if p0 { "supervisor" } else { "user" }, if p1 { "supervisor" } else { "user" }, match &r { Ok(()) => String::new(), Err(e) => format!(" ({})", err_kind(e)) }));
            if p0 != p1 {
                flips += 1;
                let ok = if p1 { s1 == r60 && r61 == s0.wrapping_sub(2) } else { r61 == s0 && s1 == r60.wrapping_add(2) };
                if !ok {
                    ctx.violation(&format!("privilege-changed-without-stack-exchange:{}:{}", if p1 { "entry" } else { "return" }, if r.is_ok() { "ok-step" } else { "failing-step" }),
                        format!("step {step} at x{pc0:04X} went from {} to {} mode but R6/saved SP went from (x{r60:04X}, x{s0:04X}) to (x{r61:04X}, x{s1:04X})", if p0 { "supervisor" } else { "user" }, if p1 { "supervisor" } else { "user" }), case(&hist));
                    return;
                }
                ctx.count(if r.is_ok() { "stack-exchange.checked" } else { "stack-exchange.checked-on-failing-step" });
            }
            if let Err(e) = &r {
                ctx.count(&format!("stack-exchange.errors.{}", err_kind(e)));
                // continue after the error, as a debugger user would: step over the offending word
                if sim.psr().privileged() == p0 && sim.pc == pc0 { sim.pc = pc0.wrapping_add(1); }
                if rng.chance(1, 3) { break; }
            }
            if sim.hit_halt() || (sim.pc == base + len as u16 && !real && sim.mem[sim.pc].get() == 0xF025) { break; }
        }
        if flips >= 2 { ctx.nontrivial(crate::rng::hash_bytes(format!("{listing:?}{user_r6}{strict}{real}").as_bytes())); }
        if strict { ctx.count("stack-exchange.strict-runs"); }
    });
}

fn guard(m: &Merged, _t: Tier) -> Vec<String> {
    let mut out = vec![];
    for k in KINDS { if k != "TRAP" { need_prefix(m, &mut out, &format!("refused.{k}."), 2); } if k != "RTI" { need_prefix(m, &mut out, &format!("legal.{k}."), 1); } }
    for k in ["refused-region.below-user", "refused-region.io-page", "user-steps.no-supervisor-access", "user-steps.entry-accesses-only", "stack-exchange.checked", "stack-exchange.strict-runs"] { need(m, &mut out, k, 20); }
    out
}

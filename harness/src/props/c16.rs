//! C16 No machine state makes the simulator panic.
use super::*;
use crate::json::Json;
use crate::rng::Rng;
use crate::simutil::*;
use lc3_ensemble::sim::device::{BufferedDisplay, BufferedKeyboard, Interrupt, InterruptFromFn, TimerDevice};
use lc3_ensemble::sim::mem::{MachineInitStrategy, Word};
use lc3_ensemble::sim::{InternalRegister, SimFlags, Simulator};

pub fn prop() -> Prop {
    Prop {
        id: "C16", title: "No machine state makes the simulator panic", level: "fault_enumeration",
        rule: "Machines: (in half of the cases after loading a small object file at a boundary origin, so that strict mode's table of allocated blocks is the file's) full 64K memory images (uniform random, encoding-biased, pointer-biased, or the OS image with random patches), random registers with initialized/uninitialized mix, all 16 combinations of {strict, real traps, debug frames, ignore privilege} x 3 \
               initialization strategies, PC from {x0000, xFDFF, xFE00, xFFFF, every page boundary, random}, PSR privilege/priority, saved SP; keyboard (with queue, optional interrupt enable), display, an enabled seeded timer, a scripted interrupt device, \
               and PC/PSR/MCR/SavedSP mapped at random I/O ports. Each machine executes up to 200 step_in, then run-style calls (run_while with an instruction limit like run_with_limit, step_over- and step_out-style frame conditions, all additionally bounded by a boundary counter because a corrupted OS can loop through exception entries without ever completing an instruction), and finally prefetch_pc(), frames(), psr(), hit_halt(), hit_breakpoint() and a reset. \
               Everything runs inside catch_unwind in sharded processes; a panic or a shard killed by a signal is a violation; every failure must surface as Err(SimErr). verif and release profiles. Non-trivial = machine that executed at least one step; distinct = machine seed.",
        assumptions: &["x86-64; two build profiles (verif, release)"],
        also_release: true, abort_is_violation: true, run, guard,
        stages: || vec![st("asan", "", 400, 4, 1500)],
        level_text: "Fault enumeration at run time: thousands (quick) to hundreds of thousands (thorough) of random hostile machine states driven through every execution API under a panic/abort monitor in two build profiles; thorough adds an ASan stage.",
        level_note: "Sampling; 'never panics' is decided for the states generated and the two profiles run.",
        technique: "panic/abort monitor over random machine states (state fuzzing), two profiles",
        ..Prop::base("C16", "")
    }
}

fn build(rng: &mut Rng, flagbits: u64) -> (Simulator, Json) {
    let init = match rng.below(3) { 0 => MachineInitStrategy::Unseeded, 1 => MachineInitStrategy::Seeded { seed: rng.next() }, _ => MachineInitStrategy::Known { value: rng.u16() } };
    let flags = SimFlags { strict: flagbits & 1 != 0, use_real_traps: flagbits & 2 != 0, debug_frames: flagbits & 4 != 0, ignore_privilege: flagbits & 8 != 0, machine_init: init };
    let mut sim = Simulator::new(flags);
    // in half of the machines an object file is loaded first: the table of allocated blocks used by strict mode then
    // holds only that file's blocks (lowest block usually above x0000)
    let mut loaded = String::new();
    if rng.bool() {
        let origin = *rng.pick(&[0x3000u16, 0x3000, 0x4000, 0x0200, 0x8000, 0xFD00, 0x0000]);
        let n = 1 + rng.below(6);
        let mut src = format!(".orig x{origin:04X}\n");
        for _ in 0..n { match rng.below(4) { 0 => src.push_str(&format!(".blkw {}\n", 1 + rng.below(5))), 1 => src.push_str(".stringz \"ab\"\n"), _ => src.push_str(&format!(".fill x{:04X}\n", biased_word(rng))) } }
        src.push_str(".end\n");
        if rng.chance(1, 3) { src.push_str(&format!(".orig x{:04X}\n.fill x{:04X}\n.blkw 2\n.end\n", origin.wrapping_add(0x100), biased_word(rng))); }
        if let Ok(ast) = lc3_ensemble::parse::parse_ast(&src) { if let Ok(obj) = lc3_ensemble::asm::assemble(ast) { let _ = sim.load_obj_file(&obj); loaded = src; } }
    }
    let image = if loaded.is_empty() { rng.below(4) } else { 3 };
    match image {
        0 => for a in 0..=0xFFFFu16 { let v = rng.u16(); if rng.chance(7, 8) { sim.mem[a] = Word::new_init(v); } else { let mut x = v; sim.mem[a] = Word::new_uninit(&mut x); } },
        1 => for a in 0..=0xFFFFu16 { sim.mem[a] = Word::new_init(biased_word(rng)); },
        2 => for a in 0..=0xFFFFu16 { sim.mem[a] = Word::new_init(if rng.bool() { boundary_addr(rng) } else { biased_word(rng) }); },
        _ => for _ in 0..rng.usize(400) { let a = rng.u16(); sim.mem[a] = Word::new_init(biased_word(rng)); },
    }
    for i in 0..8 { let v = if rng.bool() { boundary_addr(rng) } else { rng.u16() }; if rng.chance(5, 6) { sim.reg_file[reg(i)].set(v); } else { let mut x = v; sim.reg_file[reg(i)] = Word::new_uninit(&mut x); } }
    let pc = if !loaded.is_empty() && rng.chance(2, 3) { let o = u16::from_str_radix(&loaded[7..11], 16).unwrap_or(0x3000); for k in 0..12 { let a = o.wrapping_add(k); if rng.chance(2, 3) { sim.mem[a] = Word::new_init(biased_word(rng)); } } o } else { 0xFFFF };
    let pc = if pc != 0xFFFF || (!loaded.is_empty() && rng.chance(2, 3)) { pc } else { match rng.below(8) { 0 => 0x0000, 1 => 0xFDFF, 2 => 0xFE00, 3 => 0xFFFF, 4 => (rng.below(256) as u16) << 8, 5 => ((rng.below(256) as u16) << 8).wrapping_sub(1), _ => rng.u16() } };
    sim.pc = pc;
    let psr = ((rng.bool() as u16) << 15) | ((rng.below(8) as u16) << 8) | (1 << rng.below(3));
    let _ = sim.write_mem(0xFFFC, Word::new_init(psr), priv_ctx());
    // internal registers at random ports
    let mut ports = vec![];
    for r in [InternalRegister::PC, InternalRegister::PSR, InternalRegister::MCR, InternalRegister::SavedSP] { if rng.chance(1, 3) { let p = 0xFE00 | (rng.below(0x200) as u16); if sim.mmap_internal(p, r).is_ok() { ports.push(format!("x{p:04X}={r:?}")); } } }
    if rng.chance(1, 4) { sim.munmap_internal(*rng.pick(&[0xFFFCu16, 0xFFFE])); }
    let _ = sim.mmap_internal(SP_PORT, InternalRegister::SavedSP).map(|_| { let v = boundary_addr(rng); let _ = sim.write_mem(SP_PORT, Word::new_init(v), priv_ctx()); });
    // devices
    if rng.chance(3, 4) { let kb = BufferedKeyboard::default(); kb.get_buffer().write().unwrap().extend((0..rng.usize(6)).map(|_| rng.next() as u8)); sim.device_handler.set_keyboard(kb); if rng.bool() { let _ = sim.write_mem(0xFE00, Word::new_init(0x4000), priv_ctx()); } }
    if rng.chance(3, 4) { sim.device_handler.set_display(BufferedDisplay::default()); }
    if rng.chance(1, 2) { let lo = rng.below(5) as u32; let hi = lo + rng.below(6) as u32; let (tseed, tv, tp) = (rng.next(), rng.next() as u8, rng.below(10) as u8);
        // every (non-empty) way of giving the range, at construction or by re-configuration afterwards
        use std::ops::Bound;
        let form = rng.below(9);
        let mk = |f: u64| -> TimerDevice { match f {
            0 | 1 => TimerDevice::new(Some(tseed), lo..=hi, tv, tp), 2 => TimerDevice::new(Some(tseed), lo..hi + 1, tv, tp), 3 => TimerDevice::new(Some(tseed), lo.., tv, tp),
            4 => TimerDevice::new(Some(tseed), .., tv, tp), 5 => TimerDevice::new(Some(tseed), ..=hi, tv, tp), 6 => TimerDevice::new(Some(tseed), ..hi + 1, tv, tp),
            7 => TimerDevice::new(Some(tseed), (Bound::Excluded(lo), Bound::Included(hi + 1)), tv, tp), _ => TimerDevice::new(Some(tseed), u32::MAX - hi..=u32::MAX, tv, tp) } };
        let mut t = if rng.chance(1, 3) { let mut t = mk(0); match form { 3 => { t.set_range(lo..); } 4 => { t.set_range(..); } 5 => { t.set_range(..=hi); } 8 => { t.set_exact(u32::MAX); } _ => { t.set_range(lo..=hi); } } if rng.bool() { t.reset_remaining(); } t } else { mk(form) };
        t.enabled = true; let ports: Vec<u16> = if rng.bool() { vec![0xFE20] } else { vec![] }; let _ = sim.device_handler.add_device(t, &ports); }
    if rng.chance(1, 2) { let mut r2 = Rng::new(rng.next()); let _ = sim.device_handler.add_device(InterruptFromFn::new(move || if r2.chance(1, 6) { Some(Interrupt::vectored(r2.next() as u8, r2.below(9) as u8)) } else { None }), &[]); }
    if rng.chance(1, 6) { for _ in 0..3 { let a = rng.u16(); sim.breakpoints.insert(lc3_ensemble::sim::debug::Breakpoint::PC(a)); } }
    let d = Json::obj().set("flags", format!("{flags:?}")).set("image", image).set("pc", format!("x{pc:04X}")).set("psr", format!("x{psr:04X}")).set("mapped", format!("{ports:?}")).set("loaded_object", loaded.as_str());
    (sim, d)
}

fn run(ctx: &mut Ctx) {
    let n = ctx.tier.pick_exact(3_000, 300_000);
    ctx.cases(0, n, |ctx, rng, idx| {
        let flagbits = idx % 16;
        let seed0 = rng.clone();
        let built = crate::monitor::guard(|| { let mut r = seed0.clone(); build(&mut r, flagbits) });
        let (mut sim, desc) = match built { Ok(x) => x, Err(p) => { ctx.violation(&format!("panic:construct:{}", p.sig()), format!("panic while constructing the machine: {}", p.msg), Json::obj().set("flagbits", flagbits)); return; } };
        // keep the rng in step with what build() consumed
        { let mut r = seed0.clone(); let _ = crate::monitor::guard(|| build(&mut r, flagbits)); *rng = r; }
        ctx.eval();
        ctx.nontrivial(ctx.case_seed(0, idx));
        let case = |stage: &str| desc.clone().set("stage", stage);
        let mut steps = 0;
        let nsteps = 1 + rng.usize(200);
        for _ in 0..nsteps {
            let r = crate::monitor::guard(|| sim.step_in());
            match r {
                Ok(Ok(())) => { steps += 1; }
                Ok(Err(e)) => { ctx.count(&format!("errors.{}", err_kind(&e))); steps += 1; let pf = crate::monitor::guard(|| sim.prefetch_pc()); if let Err(p) = pf { ctx.violation(&format!("panic:prefetch_pc:{}", p.sig()), format!("prefetch_pc() panicked after {}: {}", err_kind(&e), p.msg), case("prefetch_pc")); return; } if rng.chance(1, 2) { break; } }
                Err(p) => { ctx.violation(&format!("panic:step_in:{}", p.sig()), format!("step_in panicked at pc x{:04X}: {} ({}:{})", sim.pc, p.msg, p.file, p.line), case("step_in")); return; }
            }
        }
        ctx.count_n("steps", steps);
        for (name, f) in [("run_with_limit", 0u8), ("step_over", 1), ("step_out", 2), ("run_with_limit-2", 0)] {
            let lim = rng.below(300);
            let r = crate::monitor::guard(|| match f { 0 => { let i0 = sim.instructions_run; let mut c = 0; sim.run_while(move |s| { c += 1; c < 400 && s.instructions_run.wrapping_sub(i0) < lim }) }, 1 => { let mut c = 0; sim.run_while(|_| { c += 1; c < 300 }).and_then(|_| { let mut c2 = 0; let d = sim.frame_stack.len(); sim.run_while(move |s| { c2 += 1; c2 < 100 && (c2 == 1 || d < s.frame_stack.len()) }) }) } _ => { if sim.frame_stack.len() > 0 { let mut c = 0; let d = sim.frame_stack.len(); sim.run_while(move |s| { c += 1; c < 300 && (c == 1 || d <= s.frame_stack.len()) }) } else { sim.step_out() } } });
            match r { Ok(Ok(())) => ctx.count(&format!("calls.{name}.ok")), Ok(Err(e)) => ctx.count(&format!("calls.{name}.err.{}", err_kind(&e))), Err(p) => { ctx.violation(&format!("panic:{name}:{}", p.sig()), format!("{name} panicked: {} ({}:{})", p.msg, p.file, p.line), case(name)); return; } }
        }
        let q = crate::monitor::guard(|| { let a = sim.prefetch_pc(); let b = sim.frame_stack.frames().map(|f| f.len()); let c = sim.psr().get(); let d = (sim.hit_halt(), sim.hit_breakpoint()); let e = format!("{:?}", sim.psr()); (a, b, c, d, e.len()) });
        if let Err(p) = q { ctx.violation(&format!("panic:queries:{}", p.sig()), format!("state query panicked: {} ({}:{})", p.msg, p.file, p.line), case("queries")); return; }
        let r = crate::monitor::guard(|| { sim.reset(); sim.step_in().is_ok() });
        if let Err(p) = r { ctx.violation(&format!("panic:reset:{}", p.sig()), format!("reset/step panicked: {}", p.msg), case("reset")); return; }
        ctx.count(&format!("machines.flags-{flagbits:02}"));
        if sim.pc == 0 { ctx.count("pc-wrapped-or-zero"); }
        if ctx.want_sample() { ctx.sample(desc.clone().set("steps", steps)); }
    });
}

fn guard(m: &Merged, _t: Tier) -> Vec<String> {
    let mut out = vec![];
    for f in 0..16 { need(m, &mut out, &format!("machines.flags-{f:02}"), 20); }
    need(m, &mut out, "steps", 50_000);
    for e in ["AccessViolation", "IllegalOpcode", "InvalidInstrFormat", "PrivilegeViolation", "StrictPCCurrUninit", "StrictRegSetUninit", "StrictMemAddrUninit"] { need(m, &mut out, &format!("errors.{e}"), 1); }
    out
}

//! C17 / C18: binary and text object formats round-trip every object file.
use super::*;
use crate::gen::*;
use crate::json::Json;
use crate::objutil::*;
use crate::rng::Rng;
use lc3_ensemble::asm::encoding::{BinaryFormat, ObjFileFormat, TextFormat};
use lc3_ensemble::asm::ObjectFile;

pub fn prop17() -> Prop {
    Prop {
        id: "C17", title: "Binary object format round-trips every object file", level: "exploration",
        rule: "Object files come from (a) generated well-formed programs (1-4 blocks, .blkw, .stringz with arbitrary characters, labels, .external declarations before/between/inside/after blocks with .fill uses) \
               assembled with and without debug symbols from hostile-surface renderings (CRLF, tabs, non-ASCII and control characters in comments, blank lines) and (b) random link trees over 2-4 generated files \
               (resolved and pending externals). Each is serialized with BinaryFormat and read back; the result must be Some(o) with o == original (derived PartialEq: image, labels, external flags, relocations, \
               line map, source), and a second round trip must be identical. Non-trivial = object with at least one word; distinct = distinct serializations.",
        assumptions: &["ObjectFile's derived PartialEq covers every component named in the property (checked by reading the struct)"],
        run: run17, guard,
        level_text: "Runtime round-trip monitor over tens of thousands (quick) to millions (thorough) of real object files, including linked ones and ones with relocation entries and debug info.",
        level_note: "Sampled; limited to objects the assembler/linker can produce from the generator's programs.",
        technique: "round-trip monitoring (serialize -> deserialize -> compare)",
        ..Prop::base("C17", "")
    }
}
pub fn prop18() -> Prop {
    Prop {
        id: "C18", title: "Text object format round-trips every object file", level: "exploration",
        rule: "Same object-file population as C17, with sources full of quotes, backslashes, tabs, CRLF, control and non-ASCII characters, ' | ' dividers, '=', '#', '.' inside comments, blank and whitespace-only lines; \
               serialized with TextFormat and read back; must equal the original, second round trip identical. Non-trivial = object with at least one word; distinct = distinct serializations.",
        assumptions: &["ObjectFile's derived PartialEq covers every component named in the property"],
        run: run18, guard,
        level_text: "Runtime round-trip monitor over tens of thousands (quick) to millions (thorough) of real object files with hostile source text.",
        level_note: "Sampled; limited to objects the assembler/linker can produce from the generator's programs.",
        technique: "round-trip monitoring (serialize -> deserialize -> compare)",
        ..Prop::base("C18", "")
    }
}

/// first component that differs, using only public queries (for the signature)
fn first_diff(a: &ObjectFile, b: &ObjectFile) -> String {
    let ia: Vec<_> = a.addr_iter().collect(); let ib: Vec<_> = b.addr_iter().collect();
    if ia != ib { return "image".into(); }
    match (a.symbol_table(), b.symbol_table()) {
        (None, None) => "unknown".into(),
        (Some(_), None) | (None, Some(_)) => "symbol-table-presence".into(),
        (Some(x), Some(y)) => {
            let la: std::collections::BTreeMap<_, _> = x.label_iter().map(|(n, a, e)| (n.to_string(), (a, e))).collect();
            let lb: std::collections::BTreeMap<_, _> = y.label_iter().map(|(n, a, e)| (n.to_string(), (a, e))).collect();
            if la != lb { return "labels".into(); }
            for n in la.keys() { if x.get_label_source(n) != y.get_label_source(n) { return "label-source-index".into(); } }
            if pending_relocs(a) != pending_relocs(b) { return "relocations".into(); }
            let lx: Vec<_> = x.line_iter().collect(); let ly: Vec<_> = y.line_iter().collect();
            if lx != ly { return "line-map".into(); }
            match (x.source_info(), y.source_info()) {
                (Some(s), Some(t)) => if s.source() != t.source() { "source".into() } else { "other".into() },
                (None, None) => "other".into(),
                _ => "debug-symbols-presence".into(),
            }
        }
    }
}

fn make_object(ctx: &mut Ctx, rng: &mut Rng) -> Option<(ObjectFile, Json, &'static str)> {
    if rng.chance(1, 4) {
        // a linked object
        let n = 2 + rng.usize(3);
        let files = gen_link_set(rng, n, false);
        // all files with debug symbols, none, or mixed per file (a file without them keeps its labels only if it declares externals)
        let mode = rng.below(4);
        let flags: Vec<bool> = files.iter().map(|_| match mode { 0 | 1 => true, 2 => false, _ => rng.bool() }).collect();
        let debug = format!("{flags:?}");
        if mode == 3 && flags.iter().any(|x| *x) && flags.iter().any(|x| !*x) { ctx.count("objects.linked-from-mixed-debug-flags"); }
        let mut objs = vec![];
        for (f, d) in files.iter().zip(&flags) { match crate::asmutil::asm(&f.r.text, *d) { Ok(Ok(o)) => objs.push(o), _ => return None } }
        let trees = all_trees(n);
        let t = rng.pick(&trees).clone();
        let Ok(o) = eval_tree(&t, &objs) else { ctx.count("link-failed"); return None };
        let case = Json::obj().set("kind", "linked").set("tree", t.show()).set("debug", debug).set("sources", Json::Arr(files.iter().map(|f| Json::from(f.r.text.as_str())).collect()));
        Some((o, case, "linked"))
    } else if rng.chance(1, 100) {
        // degenerate sources: empty, whitespace, comments or structure only (with debug symbols the source text is still part of the object)
        let text = *rng.pick(&["", " ", "\n", "\r\n", ";", "; only a comment", "\n\n\n", ".orig x3000\n.end", ".orig x3000\n.end\n", ".external FAR", "\t"]);
        let debug = rng.chance(3, 4);
        let o = match crate::asmutil::asm(text, debug) { Ok(Ok(o)) => o, _ => return None };
        ctx.count("objects.degenerate-source");
        let case = Json::obj().set("kind", "assembled").set("debug", debug).set("source", text);
        Some((o, case, if debug { "assembled-debug" } else { "assembled-nodebug" }))
    } else if rng.chance(1, 400) {
        // one very large block, or a very long run of consecutive statement lines: chunk lengths in the object file (words x 3 bytes,
        // line-table entries x 2 bytes) pass 16-bit limits
        let debug = rng.chance(3, 4);
        let (text, what) = if rng.bool() {
            let n = *rng.pick(&[21_845u32, 21_846, 30_000, 32_767, 32_768, 40_000, 60_000]);
            (format!(".orig x0200\nBIG .blkw {n}\nAFTER .fill BIG\n.end\n"), format!("one block of {} words", n + 1))
        } else {
            let n = *rng.pick(&[32_767usize, 32_768, 33_000, 40_000]);
            let mut t = String::with_capacity(n * 10); t.push_str(".orig x0200\n"); for i in 0..n { t.push_str(if i % 3 == 0 { ".fill 7\n" } else { "ADD R0,R0,#1\n" }); } t.push_str(".end\n");
            (t, format!("{n} consecutive one-word statement lines"))
        };
        let o = match crate::asmutil::asm(&text, debug) { Ok(Ok(o)) => o, _ => return None };
        ctx.count("objects.very-large-block-or-line-run");
        let case = Json::obj().set("kind", "assembled").set("debug", debug).set("source_shape", what);
        Some((o, case, if debug { "assembled-debug" } else { "assembled-nodebug" }))
    } else if rng.chance(1, 400) {
        // a source longer than 64 KiB and/or with more than 65535 lines: byte offsets and line numbers stored with the
        // debug symbols (and the label positions of an .external-declaring file) cross the 16-bit boundary
        let debug = rng.chance(3, 4);
        let g = gen_object(rng, &GenOpts { big_padding: false, ..GenOpts::default() }, debug)?;
        let (pad, what) = match rng.below(5) {
            4 => { let n = *rng.pick(&[65_534usize, 65_535, 65_536, 70_000]); (format!(".orig x4000\nQ{} .fill 1\n.end\n", "a".repeat(n)), format!("a block with a label of {} bytes", n + 1)) }
            0 => { let n = 65_000 + rng.usize(1_100); (format!("{}\n", ";".repeat(n)), format!("one comment line of {n} bytes")) }
            1 => { let n = 65_400 + rng.usize(400); ("\n".repeat(n), format!("{n} empty lines")) }
            2 => { let n = 700 + rng.usize(700); (format!("; {}\n", "padding ".repeat(12)).repeat(n), format!("{n} comment lines")) }
            _ => { let n = 131_000 + rng.usize(200); (format!("{}\n", " ".repeat(n)), format!("one blank line of {n} bytes")) }
        };
        let text = format!("{pad}{}", g.r.text);
        let o = match crate::asmutil::asm(&text, debug) { Ok(Ok(o)) => o, _ => return None };
        ctx.count("objects.source-over-64KiB-or-65535-lines");
        let case = Json::obj().set("kind", "assembled").set("debug", debug).set("source_prefix", what).set("source_after_prefix", g.r.text.as_str());
        Some((o, case, if debug { "assembled-debug" } else { "assembled-nodebug" }))
    } else {
        let debug = rng.chance(2, 3);
        let opts = GenOpts { big_padding: rng.chance(1, 10), ..GenOpts::default() };
        let g = gen_object(rng, &opts, debug)?;
        let case = Json::obj().set("kind", "assembled").set("debug", debug).set("source", g.r.text.as_str());
        if g.stmts.iter().any(|s| matches!(s.k, K::External(_))) { ctx.count("objects.with-external-decl"); }
        if !g.a.relocs.is_empty() { ctx.count("objects.with-relocations"); }
        if g.a.blocks.len() > 1 { ctx.count("objects.multi-block"); }
        if g.r.text.contains("\r\n") { ctx.count("sources.crlf"); }
        if !g.r.text.is_ascii() { ctx.count("sources.non-ascii"); }
        if g.r.text.contains('\\') { ctx.count("sources.backslash"); }
        if g.r.text.contains('"') { ctx.count("sources.quote"); }
        Some((g.obj, case, if debug { "assembled-debug" } else { "assembled-nodebug" }))
    }
}

fn roundtrip<F: ObjFileFormat>(ctx: &mut Ctx, obj: &ObjectFile, case: &Json, kind: &str, fmt: &str, ser: impl Fn(&ObjectFile) -> <F::Stream as ToOwned>::Owned, de: impl Fn(&<F::Stream as ToOwned>::Owned) -> Option<ObjectFile>, key: impl Fn(&<F::Stream as ToOwned>::Owned) -> u64) {
    ctx.eval();
    let c = || case.clone();
    let Some(s) = ctx.no_panic("serialize", c, || ser(obj)) else { return };
    if obj.addr_iter().next().is_some() { ctx.nontrivial(key(&s)); }
    let Some(back) = ctx.no_panic("deserialize", c, || de(&s)) else { return };
    match back {
        None => ctx.violation(&format!("{fmt}-reader-rejects-own-output:{kind}"), format!("deserialize(serialize(o)) = None for a {kind} object"), c()),
        Some(b) => {
            if &b != obj { let d = first_diff(obj, &b); ctx.violation(&format!("{fmt}-roundtrip-differs:{d}"), format!("{kind} object differs after a {fmt} round trip in: {d}"), c()); return; }
            let Some(s2) = ctx.no_panic("serialize", c, || ser(&b)) else { return };
            match de(&s2) { Some(b2) if b2 == b => ctx.count(&format!("roundtrip.{kind}")), _ => ctx.violation(&format!("{fmt}-second-roundtrip-differs"), "second round trip differs", c()) }
        }
    }
}

fn run17(ctx: &mut Ctx) {
    let n = ctx.tier.pick(12_000, 1_000_000);
    ctx.cases(0, n, |ctx, rng, _| {
        let Some((obj, case, kind)) = make_object(ctx, rng) else { ctx.count("no-object"); return };
        roundtrip::<BinaryFormat>(ctx, &obj, &case, kind, "binary", |o| BinaryFormat::serialize(o), |s| BinaryFormat::deserialize(s), |s| crate::rng::hash_bytes(s));
        if ctx.want_sample() && kind == "assembled-debug" { if let Some(src) = case.get("source").and_then(|s| s.as_str()) { if src.len() < 200 { ctx.sample(Json::obj().set("source", src).set("binary_len", BinaryFormat::serialize(&obj).len())); } } }
    });
}
fn run18(ctx: &mut Ctx) {
    let n = ctx.tier.pick(12_000, 1_000_000);
    ctx.cases(0, n, |ctx, rng, _| {
        let Some((obj, case, kind)) = make_object(ctx, rng) else { ctx.count("no-object"); return };
        roundtrip::<TextFormat>(ctx, &obj, &case, kind, "text", |o| TextFormat::serialize(o), |s| TextFormat::deserialize(s), |s| crate::rng::hash_bytes(s.as_bytes()));
        if ctx.want_sample() && kind == "assembled-debug" { let t = TextFormat::serialize(&obj); if t.len() < 700 { ctx.sample(Json::obj().set("text_format", t)); } }
    });
}

fn guard(m: &Merged, _t: Tier) -> Vec<String> {
    let mut out = vec![];
    for k in ["roundtrip.linked", "roundtrip.assembled-debug", "roundtrip.assembled-nodebug", "objects.with-relocations", "objects.with-external-decl", "objects.multi-block", "sources.crlf", "sources.non-ascii", "sources.backslash", "sources.quote", "objects.source-over-64KiB-or-65535-lines", "objects.very-large-block-or-line-run", "objects.linked-from-mixed-debug-flags", "objects.degenerate-source"] { need(m, &mut out, k, 20); }
    out
}

//! C27 Frame stack tracks calls and returns.
//! C28 Access observer records exactly the memory the program touched.
use super::*;
use crate::json::Json;
use crate::progs::*;
use crate::refsim::*;
use crate::rng::Rng;
use crate::simutil::*;
use lc3_ensemble::sim::frame::{FrameType, ParameterList};
use lc3_ensemble::sim::mem::Word;
use lc3_ensemble::sim::MemAccessCtx;

pub fn prop27() -> Prop {
    Prop {
        id: "C27", title: "Frame stack tracks calls and returns", level: "exploration",
        rule: "Generated programs with nested JSR/JSRR subroutines (R7 saved on the R6 stack), TRAPs, unbalanced RET / JMP R7 at depth 0 (saturation), scheduled interrupts with installed ISRs, and raw random instruction streams, run in lock-step with the reference machine's \
               frame model with debug_frames on and off, virtual and real traps. Random signatures are registered for callees and interrupt vectors: calling-convention with 0-4 parameters and pass-by-register over random registers. After every successful step: \
               frame_stack.len() = calls + traps + interrupts entered - returns (RET/JMP R7, RTI), saturating at 0; with debug frames frames() has exactly len() entries, each with the caller address (the interrupted instruction for interrupts), the callee start / vector, the kind, \
               the frame pointer (R6 - 4 for calling-convention signatures) and the argument values captured at call time (registers, or mem[R6..R6+n)). Non-trivial = episode reaching depth >= 1; distinct = state/program hash.",
        assumptions: &["reference frame model in refsim.rs written from the rustdoc of sim::frame", "trap signatures are the built-in ones (x20-x25)"],
        run: run27, guard: guard27,
        level_text: "Lock-step differential monitoring of the frame stack (depth and full frame contents) against the reference machine over generated programs with calls, traps, interrupts and registered signatures.",
        level_note: "Trusts the reference frame model; sampled programs and signatures.",
        technique: "lock-step differential monitoring of debug state against a reference model",
        ..Prop::base("C27", "")
    }
}
pub fn prop28() -> Prop {
    Prop {
        id: "C28", title: "Access observer records exactly the memory the program touched", level: "exploration",
        rule: "Non-strict lock-step episodes (random states and generated programs, all memory pre-initialized so 'changed' means the value changed). Per step_in the observer's read/written/modified sets on non-I/O addresses must equal the reference machine's access sets \
               (fetch, data reads, indirect pointers, trap/interrupt/exception vector entries and stack pushes, RTI pops; modified = written with a different value at some write); on I/O addresses modified must imply written. The same comparison is made on the sets accumulated over \
               run_with_limit segments (observer cleared at the start of each run). Host reads/writes through untracked contexts (track_access: false, omnipotent) interleaved between steps must leave the observer unchanged, and a new step/run must start from an empty observer. \
               Non-trivial = step with at least one data access besides the fetch; distinct = state/program hash.",
        assumptions: &["reference access sets from refsim.rs", "I/O-page addresses are only checked for modified => written (device-dependent otherwise)"],
        run: run28, guard: guard28,
        level_text: "Lock-step differential monitoring of the access observer against the reference machine's predicted access sets, per step and accumulated over runs, with interleaved untracked host accesses.",
        level_note: "Trusts the reference access model; non-strict mode only, as the property states.",
        technique: "lock-step differential monitoring of recorded access sets against a reference model",
        ..Prop::base("C28", "")
    }
}

fn ftype_name(f: FrameType) -> FType { match f { FrameType::Subroutine => FType::Subroutine, FrameType::Trap => FType::Trap, FrameType::Interrupt => FType::Interrupt } }

fn gen_sig(rng: &mut Rng) -> (Sig, ParameterList) {
    if rng.bool() {
        let n = rng.usize(5);
        let names: Vec<String> = (0..n).map(|i| format!("a{i}")).collect();
        let refs: Vec<&str> = names.iter().map(|s| s.as_str()).collect();
        (Sig::CallingConvention(n), ParameterList::with_calling_convention(&refs))
    } else {
        let n = rng.usize(4);
        let regs: Vec<u8> = (0..n).map(|_| rng.below(8) as u8).collect();
        let ps: Vec<(String, lc3_ensemble::ast::Reg)> = regs.iter().enumerate().map(|(i, r)| (format!("p{i}"), reg(*r as usize))).collect();
        let refs: Vec<(&str, lc3_ensemble::ast::Reg)> = ps.iter().map(|(s, r)| (s.as_str(), *r)).collect();
        (Sig::PassByRegister(regs), ParameterList::with_pass_by_register(&refs, if rng.bool() { Some(reg(0)) } else { None }))
    }
}

/// An interrupt service routine that uses JMP R7 / RET as an indirect jump inside the handler (R7 saved around it): by the
/// property's counting rule that is a return, executed while the interrupt's own frame is the innermost one.
fn ret_isr(rng: &mut Rng, origin: u16) -> String {
    let j = if rng.bool() { "RET" } else { "JMP R7" };
    let work = if rng.bool() { "ADD R7, R7, #0\n" } else { "" };
    format!(".orig x{origin:04X}\nADD R6, R6, #-1\nSTR R7, R6, #0\nLEA R7, ISRL\n{j}\nISRL {work}LDR R7, R6, #0\nADD R6, R6, #1\nRTI\n.end\n")
}

fn check_frames(p: &Pair) -> Option<(String, String)> {
    if p.sim.frame_stack.len() != p.r.frame_no { return Some(("depth".into(), format!("len() = {}, reference {}", p.sim.frame_stack.len(), p.r.frame_no))); }
    match (p.sim.frame_stack.frames(), p.r.debug_frames) {
        (None, false) => None,
        (Some(_), false) => Some(("frames-present-without-debug".into(), "frames() is Some although debug_frames is off".into())),
        (None, true) => Some(("frames-missing".into(), "frames() is None although debug_frames is on".into())),
        (Some(fs), true) => {
            if fs.len() != p.r.frames.len() { return Some(("frame-count".into(), format!("{} frames, reference {}", fs.len(), p.r.frames.len()))); }
            for (i, (f, r)) in fs.iter().zip(&p.r.frames).enumerate() {
                if f.caller_addr != r.caller { return Some((format!("caller:{:?}", r.ftype), format!("frame {i}: caller x{:04X}, reference x{:04X}", f.caller_addr, r.caller))); }
                if f.callee_addr != r.callee { return Some((format!("callee:{:?}", r.ftype), format!("frame {i}: callee x{:04X}, reference x{:04X}", f.callee_addr, r.callee))); }
                if ftype_name(f.frame_type) != r.ftype { return Some(("kind".into(), format!("frame {i}: kind {:?}, reference {:?}", f.frame_type, r.ftype))); }
                if f.frame_ptr.map(|w| w.get()) != r.frame_ptr { return Some(("frame-pointer".into(), format!("frame {i}: frame_ptr {:?}, reference {:?}", f.frame_ptr.map(|w| w.get()), r.frame_ptr))); }
                let args: Vec<u16> = f.arguments.iter().map(|w| w.get()).collect();
                if args != r.args { return Some((format!("arguments:{:?}", r.ftype), format!("frame {i} ({:?} x{:04X}): arguments {:04X?}, reference {:04X?}", r.ftype, r.callee, args, r.args))); }
            }
            None
        }
    }
}

fn run27(ctx: &mut Ctx) {
    let n = ctx.tier.pick(2_500, 250_000);
    ctx.cases(0, n, |ctx, rng, idx| {
        // independent bits of the case index (every combination of real traps, debug frames and program style occurs)
        let real = idx & 1 == 1; let dbg = (idx >> 1) % 4 != 3; let structured = (idx >> 3) % 4 != 3;
        let kbd: Vec<u8> = (0..8).map(|_| 1 + rng.below(255) as u8).collect();
        let mut p = Pair::new(real, false, dbg, rng.u16(), Some(&kbd), true);
        let mut desc = Json::obj().set("real_traps", real).set("debug_frames", dbg);
        let mut irq_vecs: Vec<u8> = vec![];
        if structured {
            // under real traps a fifth of the programs end in an exception (its entry is a frame of its own)
            let opts = ProgOpts { unbalanced: rng.chance(1, 2), faults: real && rng.chance(1, 5), ..ProgOpts::default() };
            let prog = gen_user_prog(rng, &opts);
            let Ok(labels) = p.load_text(&prog.text) else { ctx.count("not-assembled"); return };
            desc.put("program", prog.text.as_str());
            let mut sigs = vec![];
            for sname in &prog.subs { if rng.chance(2, 3) { let a = labels[sname]; let (s, pl) = gen_sig(rng); sigs.push(format!("{sname}@x{a:04X}: {pl:?}")); p.sim.frame_stack.set_subroutine_def(a, pl); p.r.sr_sigs.insert(a, s); } }
            // interrupt service routines with signatures on their vectors
            for i in 0..rng.usize(3) { let v = 0x30 + 0x11 * i as u8 + rng.below(8) as u8; let isr = if rng.chance(1, 3) { ret_isr(rng, 0x1000 + 0x80 * i as u16) } else { gen_isr(rng, 0x1000 + 0x80 * i as u16, false) }; if p.load_text(&isr).is_ok() { p.set_mem(0x100 + v as u16, 0x1000 + 0x80 * i as u16); irq_vecs.push(v); if rng.chance(2, 3) { let (s, pl) = gen_sig(rng); sigs.push(format!("interrupt x{v:02X}: {pl:?}")); p.sim.frame_stack.set_subroutine_def(0x100 + v as u16, pl); p.r.sr_sigs.insert(0x100 + v as u16, s); } } }
            desc.put("signatures", Json::Arr(sigs.iter().map(|s| Json::from(s.as_str())).collect()));
        } else {
            let d = super::c08::random_state(rng, &mut p);
            desc.put("state", d);
            for _ in 0..6 { let a = if rng.bool() { p.r.reg[rng.usize(8)] } else { p.r.pc.wrapping_add(rng.range(-64, 64) as u16) }; let (s, pl) = gen_sig(rng); p.sim.frame_stack.set_subroutine_def(a, pl); p.r.sr_sigs.insert(a, s); }
            irq_vecs = vec![0x40, 0x41];
            for v in &irq_vecs { if rng.bool() { let (s, pl) = gen_sig(rng); p.sim.frame_stack.set_subroutine_def(0x100 + *v as u16, pl); p.r.sr_sigs.insert(0x100 + *v as u16, s); } }
        }
        // signatures registered under the exception vectors x100-x102 as if they were interrupt vectors x00-x02: an exception entry
        // is a trap-kind frame (no signature), so they must not show up as its arguments
        if rng.bool() { for v in 0u16..3 { let (s, pl) = gen_sig(rng); p.sim.frame_stack.set_subroutine_def(0x100 + v, pl); p.r.sr_sigs.insert(0x100 + v, s); } desc.put("signatures_on_exception_vectors", true); }
        let mut trace: Vec<String> = vec![];
        let mut maxdepth = 0;
        let cap = if structured { 5000 } else { 64 };
        for s in 0..cap {
            let cls = p.r.class_at_pc();
            let pend = if !irq_vecs.is_empty() && rng.chance(1, if structured { 60 } else { 10 }) { Some((*rng.pick(&irq_vecs), 1 + rng.below(7) as u8)) } else { None };
            let pc0 = p.r.pc;
            let top_before = p.r.frames.last().map(|f| f.ftype);
            let Ok((got, exp)) = crate::monitor::guard(|| p.step(pend)) else { return };
            ctx.eval();
            let kind = p.r.last_kind;
            trace.push(format!("x{pc0:04X} {}", if kind == StepKind::InterruptEntry { "interrupt-entry" } else { cls })); if trace.len() > 24 { trace.remove(0); }
            let case = || desc.clone().set("last_steps", Json::Arr(trace.iter().map(|t| Json::from(t.as_str())).collect())).set("step", s);
            if got.is_ok() { if let Some((c, d)) = check_frames(&p) { let k = if kind == StepKind::InterruptEntry { "interrupt-entry" } else { cls }; ctx.violation(&format!("frames:{c}:{k}"), format!("after step {s} at x{pc0:04X} ({k}): {d}"), case()); return; } }
            if p.compare(&got, exp, false).is_some() { ctx.count("diverged-from-reference (reported by C08)"); return; }
            maxdepth = maxdepth.max(p.r.frame_no);
            if got.is_ok() {
                if dbg && kind == StepKind::ExceptionEntry { ctx.count("pushed.exception.debug-frames-on"); }
                if dbg && kind == StepKind::Instr && p.r.mem[pc0 as usize] == 0xC1C0 && matches!(top_before, Some(FType::Trap) | Some(FType::Interrupt)) { ctx.count("popped.ret-on-handler-frame"); }
                match (kind, cls) { (StepKind::InterruptEntry, _) => ctx.count("pushed.interrupt"), (StepKind::TrapEntry, _) if exp == Outcome::Ok => ctx.count("pushed.trap"), (StepKind::ExceptionEntry, _) => ctx.count("pushed.exception"), (_, "JSR") | (_, "JSRR") => ctx.count("pushed.subroutine"), (_, "RTI") => ctx.count("popped.rti"), (_, "JMP") if p.r.mem[pc0 as usize] == 0xC1C0 => ctx.count(if p.r.frame_no == 0 && maxdepth == 0 { "popped.ret-at-depth-0" } else { "popped.ret" }), _ => {} }
                if let Some(f) = p.r.frames.last() { if matches!(kind, StepKind::InterruptEntry | StepKind::TrapEntry) || cls == "JSR" || cls == "JSRR" { if f.frame_ptr.is_some() { ctx.count("signature.calling-convention"); } else if !f.args.is_empty() { ctx.count("signature.pass-by-register"); } } }
            }
            if got.is_err() || exp == Outcome::Halt || (real && p.r.acc.get(&0xFFFE).is_some_and(|f| f & WRITTEN != 0) && !p.r.mcr) { break; }
        }
        if maxdepth >= 1 { ctx.nontrivial(ctx.case_seed(0, idx)); }
        if maxdepth >= 2 { ctx.count("episodes.nested"); }
        ctx.count(if dbg { "episodes.debug-frames-on" } else { "episodes.debug-frames-off" });
        if ctx.want_sample() && structured && maxdepth >= 2 { ctx.sample(desc.clone().set("max_depth", maxdepth)); }
    });
    deep_calls(ctx);
}
/// Deep call chains: `JSR` to itself never returns, so after n steps n calls are outstanding; the depth (and with debug frames
/// the number of recorded frames) must be n also past 65 535, and unwinding with RET must count back down.
fn deep_calls(ctx: &mut Ctx) {
    use lc3_ensemble::sim::mem::MachineInitStrategy;
    use lc3_ensemble::sim::{SimFlags, Simulator};
    ctx.cases(1, 4, |ctx, _rng, idx| {
        let dbg = idx & 1 == 1; let real = idx & 2 != 0;
        let mut sim = Simulator::new(SimFlags { debug_frames: dbg, use_real_traps: real, machine_init: MachineInitStrategy::Known { value: 0 }, ..Default::default() });
        sim.mem[0x3000] = Word::new_init(0x4FFF); // JSR #-1: calls itself
        sim.pc = 0x3000;
        let case = || Json::obj().set("debug_frames", dbg).set("real_traps", real).set("program", "x3000: JSR #-1 (calls itself), later replaced by RET");
        let total = 70_000u64;
        for n in 1..=total {
            let Some(r) = ctx.no_panic("step_in", case, || sim.step_in()) else { return };
            if r.is_err() { ctx.violation("deep-calls:step-fails", format!("step {n} failed"), case()); return; }
            if n % 4096 == 0 || (65_530..=65_540).contains(&n) || n == total {
                ctx.eval();
                let d = sim.frame_stack.len();
                let f = sim.frame_stack.frames().map(|f| f.len() as u64);
                if d != n || (dbg && f != Some(n)) || (!dbg && f.is_some()) { ctx.violation("deep-calls:depth", format!("after {n} unreturned calls: len() = {d}, frames() has {f:?} entries"), case()); return; }
            }
        }
        // unwind a little: RET at x3000 with R7 = x3000 returns to itself
        sim.mem[0x3000] = Word::new_init(0xC1C0); sim.reg_file[reg(7)].set(0x3000);
        for n in 1..=10u64 { let _ = sim.step_in(); if sim.frame_stack.len() != total - n { ctx.violation("deep-calls:depth-after-returns", format!("after {n} returns from depth {total}: len() = {}", sim.frame_stack.len()), case()); return; } }
        ctx.count("deep-calls.checked");
        ctx.nontrivial(crate::rng::hash64(&[idx, 27, 65_536]));
    });
}
fn guard27(m: &Merged, _t: Tier) -> Vec<String> {
    let mut out = vec![];
    need(m, &mut out, "deep-calls.checked", 4);
    for k in ["pushed.interrupt", "pushed.trap", "pushed.subroutine", "pushed.exception", "pushed.exception.debug-frames-on", "popped.ret-on-handler-frame", "popped.rti", "popped.ret", "popped.ret-at-depth-0", "signature.calling-convention", "signature.pass-by-register", "episodes.nested", "episodes.debug-frames-on", "episodes.debug-frames-off"] { need(m, &mut out, k, 10); }
    out
}

type Obs = std::collections::BTreeMap<u16, (bool, bool, bool)>;
/// Snapshot of the observer (taken out and put back: the observer API has no iterator).
fn snapshot(p: &mut Pair) -> Obs {
    let v: Vec<(u16, lc3_ensemble::sim::observer::AccessSet)> = p.sim.observer.take_mem_accesses().collect();
    let mut out = Obs::new();
    for (a, s) in v { out.insert(a, (s.read(), s.written(), s.modified())); p.sim.observer.update_mem_accesses(a, s); }
    out
}
fn cmp_sets(obs: &Obs, acc: &std::collections::BTreeMap<u16, u8>) -> Option<(String, String)> {
    let mut addrs: Vec<u16> = acc.keys().copied().collect();
    addrs.extend(obs.keys().copied().filter(|a| !acc.contains_key(a)));
    for a in addrs {
        let (or, ow, om) = obs.get(&a).copied().unwrap_or((false, false, false));
        let r = acc.get(&a).copied().unwrap_or(0);
        if a >= 0xFE00 { if om && !ow { return Some(("io-modified-without-written".into(), format!("x{a:04X} is marked modified but not written"))); } continue; }
        if or != (r & READ != 0) { return Some((if or { "read-not-predicted".into() } else { "read-missing".into() }, format!("x{a:04X}: observer read = {or}, reference {}", r & READ != 0))); }
        if ow != (r & WRITTEN != 0) { return Some((if ow { "write-not-predicted".into() } else { "write-missing".into() }, format!("x{a:04X}: observer written = {ow}, reference {}", r & WRITTEN != 0))); }
        if om != (r & MODIFIED != 0) { return Some((if om { "modified-but-value-unchanged".into() } else { "modified-missing".into() }, format!("x{a:04X}: observer modified = {om}, reference {}", r & MODIFIED != 0))); }
    }
    None
}

fn run28(ctx: &mut Ctx) {
    let n = ctx.tier.pick(2_500, 250_000);
    ctx.cases(0, n, |ctx, rng, idx| {
        let real = idx & 1 == 1; let structured = idx % 4 < 2;
        let kbd: Vec<u8> = (0..6).map(|_| 1 + rng.below(255) as u8).collect();
        let (ign28, dbg28, fill28) = (!structured && rng.chance(1, 4), rng.chance(1, 3), rng.u16());
        let mut p = Pair::new(real, ign28, dbg28, fill28, Some(&kbd), true);
        let mut desc = Json::obj().set("real_traps", real).set("debug_frames", dbg28);
        if structured {
            let fl = rng.chance(1, 4);
            let prog = gen_user_prog(rng, &ProgOpts { faults: fl, ..ProgOpts::default() });
            let Ok(labels) = p.load_text(&prog.text) else { return };
            desc.put("program", prog.text.as_str());
            // signatures registered for the callees (as a debugger front end does): recording frames must not add memory accesses
            for sname in &prog.subs { if rng.chance(2, 3) { let a = labels[sname]; let (sg, pl) = gen_sig(rng); p.sim.frame_stack.set_subroutine_def(a, pl); p.r.sr_sigs.insert(a, sg); ctx.count("signatures.registered"); } }
        } else {
            let d = super::c08::random_state(rng, &mut p); desc.put("state", d);
            for _ in 0..4 { let a = if rng.bool() { p.r.reg[rng.usize(8)] } else { p.r.pc.wrapping_add(rng.range(-64, 64) as u16) }; let (sg, pl) = gen_sig(rng); p.sim.frame_stack.set_subroutine_def(a, pl); p.r.sr_sigs.insert(a, sg); }
        }
        let mut trace: Vec<String> = vec![];
        let cap = if structured { 1500 } else { 48 };
        let mut s = 0;
        while s < cap {
            // host accesses through untracked contexts must not be recorded, and must not survive into the next step
            let host = rng.chance(1, 6);
            let seg = if rng.chance(1, 5) { 2 + rng.below(12) } else { 1 };
            // a tenth of the calls are step_over / step_out (one run that may span a whole subroutine, trap or handler)
            let over_out: Option<bool> = if seg == 1 && rng.chance(1, 10) { Some(rng.bool() || p.r.frame_no == 0) } else { None };
            let cls = p.r.class_at_pc();
            let pc0 = p.r.pc;
            trace.push(format!("x{pc0:04X} {cls}{}", if seg > 1 { format!(" run_with_limit({seg})") } else { String::new() })); if trace.len() > 24 { trace.remove(0); }
            let case = |trace: &Vec<String>| desc.clone().set("last_steps", Json::Arr(trace.iter().map(|t| Json::from(t.as_str())).collect())).set("step", s);
            let (got, exp, acc);
            if let Some(over) = over_out {
                let mut shadow = p.r.clone();
                let mut total = std::collections::BTreeMap::new();
                let start = shadow.frame_no; let mut e = Outcome::Ok; let mut first = true; let mut guardc = 0;
                shadow.mcr = true;
                while shadow.mcr && guardc < 4000 {
                    let cont = first || if over { start < shadow.frame_no } else { start <= shadow.frame_no };
                    if !cont { break; }
                    first = false; guardc += 1; shadow.acc.clear(); e = shadow.step(None); for (a, f) in &shadow.acc { *total.entry(*a).or_insert(0u8) |= *f; } if e != Outcome::Ok { break; }
                }
                if guardc >= 4000 { ctx.count("inconclusive.segment-bound"); return; }
                let g = crate::monitor::guard(|| if over { p.sim.step_over() } else { p.sim.step_out() });
                let Ok(g) = g else { return };
                p.r = shadow; p.r.mcr = false;
                got = g; exp = e; acc = total;
                ctx.evals(guardc);
                ctx.count(if over { "segments.step_over" } else { "segments.step_out" });
                if guardc > 1 { ctx.count("segments.step_over-or-out.spanning-several-instructions"); }
            } else if seg == 1 {
                let pend = if rng.chance(1, 30) { Some((0x50, 1 + rng.below(7) as u8)) } else { None };
                let Ok((g, e)) = crate::monitor::guard(|| p.step(pend)) else { return };
                got = g; exp = e; acc = p.r.acc.clone();
                ctx.eval();
            } else {
                // accumulate the reference's sets over the segment
                let mut shadow = p.r.clone();
                let mut total = std::collections::BTreeMap::new();
                let i0 = shadow.instructions_run; let mut e = Outcome::Ok;
                let mut guardc = 0;
                shadow.mcr = true; // run_while turns the MCR on, and stops at the first boundary where it is off
                while shadow.mcr && shadow.instructions_run - i0 < seg && guardc < 2000 { guardc += 1; shadow.acc.clear(); e = shadow.step(None); for (a, f) in &shadow.acc { *total.entry(*a).or_insert(0u8) |= *f; } if e != Outcome::Ok { break; } }
                if guardc >= 2000 { ctx.count("inconclusive.segment-bound"); return; }
                let g = crate::monitor::guard(|| p.sim.run_with_limit(seg));
                let Ok(g) = g else { return };
                // under real traps a program-initiated MCR clear ends the run early: the shadow stops at the same point
                p.r = shadow; p.r.mcr = false;
                got = g; exp = e; acc = total;
                ctx.evals(seg);
                ctx.count("segments.run_with_limit");
            }
            // compare observer BEFORE Pair::compare consumes it
            let obs = snapshot(&mut p);
            if let Some((c, d)) = cmp_sets(&obs, &acc) { ctx.violation(&format!("observer:{c}:{}", if seg > 1 { "run" } else if over_out.is_some() { "step_over/out" } else { cls }), format!("after {} at x{pc0:04X} ({cls}): {d}", if seg > 1 { "run_with_limit" } else if over_out.is_some() { "step_over/step_out" } else { "step_in" }), case(&trace)); return; }
            let n_data = acc.iter().filter(|(a, _)| **a != pc0).count();
            if n_data > 0 { ctx.nontrivial(ctx.case_seed(0, idx) ^ s as u64); ctx.count("steps.with-data-access"); }
            if acc.values().any(|f| f & MODIFIED != 0) { ctx.count("steps.modifying"); }
            if acc.values().any(|f| f & WRITTEN != 0 && f & MODIFIED == 0) { ctx.count("steps.write-same-value"); }
            if matches!(p.r.last_kind, StepKind::InterruptEntry | StepKind::TrapEntry | StepKind::ExceptionEntry) { ctx.count("steps.entry"); }
            if cls == "RTI" && got.is_ok() { ctx.count("steps.rti"); }
            if cls == "LDI" || cls == "STI" { ctx.count("steps.indirect"); }
            if host {
                let a = boundary_addr(rng);
                let ctxs = [MemAccessCtx::omnipotent(), MemAccessCtx { privileged: true, strict: false, io_effects: false, track_access: false }];
                let c = ctxs[rng.usize(2)];
                let _ = p.sim.read_mem(a, c);
                if a < 0xFE00 { let v = p.sim.mem[a].get(); let _ = p.sim.write_mem(a, Word::new_init(v ^ 1), c); let _ = p.sim.write_mem(a, Word::new_init(v), c); }
                let after = snapshot(&mut p);
                if after != obs { ctx.violation("observer:untracked-host-access-recorded", format!("an untracked host access to x{a:04X} changed the observer"), case(&trace)); return; }
                ctx.count("host-accesses.untracked");
            }
            let done = got.is_err() || exp == Outcome::Halt;
            if p.compare(&got, exp, false).is_some() { ctx.count("diverged-from-reference (reported by C08)"); return; }
            if done || (real && !p.r.mcr && acc.get(&0xFFFE).is_some_and(|f| f & WRITTEN != 0)) { break; }
            s += seg as usize;
        }
        if ctx.want_sample() && !structured { ctx.sample(desc.clone().set("last_steps", Json::Arr(trace.iter().map(|t| Json::from(t.as_str())).collect()))); }
    });
}
fn guard28(m: &Merged, _t: Tier) -> Vec<String> {
    let mut out = vec![];
    for k in ["steps.with-data-access", "steps.modifying", "steps.write-same-value", "steps.entry", "steps.rti", "steps.indirect", "segments.run_with_limit", "segments.step_over", "segments.step_out", "segments.step_over-or-out.spanning-several-instructions", "host-accesses.untracked"] { need(m, &mut out, k, 20); }
    out
}

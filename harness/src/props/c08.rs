//! C08 Each simulator step follows the LC-3 ISA.
use super::*;
use crate::json::Json;
use crate::refsim::*;
use crate::rng::Rng;
use crate::simutil::*;
use crate::progs::*;

pub fn prop() -> Prop {
    Prop {
        id: "C08", title: "Each simulator step follows the LC-3 ISA", level: "exploration",
        rule: "Episodes: a fresh Simulator and an independent reference LC-3 machine are put into the same random state (registers and pointers biased to region boundaries, PSR privilege/priority/CC, saved SP, PC at page \
               boundaries/xFFFF/random, memory windows of encoding-biased words around PC and around pointer targets, vector-table entries default or replaced, keyboard queue, display, keyboard interrupt enable) under every combination of \
               {virtual, real traps} x {privilege checks on, off}; up to 64 step_in calls with scripted vectored interrupts (vectors x03-xFF, priorities 0-7) injected at random boundaries; plus structured user programs (loops, subroutines, stack use, I/O traps) run to completion. \
               After every step: result kind, R0-R7, PC, all PSR bits, saved SP, instructions_run, frame depth, prefetch_pc() on errors, display, keyboard queue, every touched memory word, and all 64K words every 16 steps and at the end. \
               Adopted rather than asserted: CC right after a trap/interrupt/exception entry and the PC value pushed for an exception under real traps. Non-trivial = episode that executed at least one instruction; distinct = distinct (initial state hash).",
        assumptions: &["reference machine harness/src/refsim.rs (ISA 3rd edition TRAP/RTI semantics; documented simulator behaviour for virtual traps and MMIO)", "interrupt vectors x00-x02 (aliases of the exception vectors) are out of domain", "no two devices raise equal priorities at one boundary"],
        run, guard,
        level_text: "Differential runtime monitoring: hundreds of thousands (quick) to tens of millions (thorough) of single steps of the real simulator compared state-for-state with an independent reference machine, over random and structured workloads in all four trap/privilege configurations.",
        level_note: "Trusts the reference machine; a misconception shared by both is invisible; coverage is what the generators reach (per-opcode x mode x outcome matrix in the evidence).",
        technique: "lock-step differential monitoring against a reference LC-3 machine",
        ..Prop::base("C08", "")
    }
}

pub fn mode_tag(r: &RefSim) -> String { format!("{}.{}", if r.privileged() { "super" } else { "user" }, if r.real_traps { "real" } else { "virtual" }) }

/// Build a random machine state in `p`. Returns a short description for samples.
pub fn random_state(rng: &mut Rng, p: &mut Pair) -> Json {
    // registers: boundary-biased pointers
    for i in 0..8 { let v = if rng.chance(2, 3) { boundary_addr(rng) } else { rng.u16() }; p.set_reg(i, v); }
    // stack pointers somewhere writable
    if rng.chance(2, 3) { let v = *rng.pick(&[0x3000u16, 0x2FFE, 0x0300, 0xFE00, 0x4000, 0x0001, 0x0000, 0xFDFF]); p.set_reg(6, v); }
    let ssp = if rng.chance(2, 3) { *rng.pick(&[0x3000u16, 0x2FFF, 0x0202, 0x0001, 0x0000, 0xFE00, 0xFFFF, 0x5000]) } else { rng.u16() };
    p.set_saved_sp(ssp);
    let psr = ((rng.chance(2, 3) as u16) << 15) | ((rng.below(8) as u16) << 8) | *rng.pick(&[1u16, 2, 4, 0, 7, 3]) | if rng.chance(1, 8) { rng.u16() & 0x78F8 } else { 0 };
    p.set_psr(psr);
    let pc = match rng.below(10) { 0 => 0xFFFF, 1 => 0xFDFF, 2 => 0x3000, 3 => 0x2FFF, 4 => 0x0200, 5 => 0xFE00, 6 | 7 => 0x3000 + rng.below(0x100) as u16, _ => boundary_addr(rng) };
    p.set_pc(pc);
    // code window around PC
    let n = 8 + rng.usize(40);
    for k in 0..n { let a = pc.wrapping_add(k as u16).wrapping_sub(4); let w = biased_word(rng); p.set_mem(a, w); }
    // pointer targets: words near registers' targets and PC-relative data hold pointers/boundaries
    for _ in 0..rng.usize(24) { let a = if rng.bool() { pc.wrapping_add(rng.range(-256, 255) as u16) } else { p.r.reg[rng.usize(8)].wrapping_add(rng.range(-32, 31) as u16) }; if a < 0xFE00 { let v = if rng.chance(2, 3) { boundary_addr(rng) } else { biased_word(rng) }; p.set_mem(a, v); } }
    // vector table edits
    for _ in 0..rng.usize(6) { let a = if rng.bool() { rng.below(0x100) as u16 } else { 0x100 + rng.below(0x100) as u16 }; let v = if rng.bool() { 0x3000 + rng.below(0x200) as u16 } else { boundary_addr(rng) }; p.set_mem(a, v); }
    if rng.chance(1, 3) { p.set_kbd_ie(true); }
    Json::obj().set("pc", format!("x{pc:04X}")).set("psr", format!("x{:04X}", p.r.psr)).set("regs", format!("{:04X?}", p.r.reg)).set("saved_sp", format!("x{ssp:04X}"))
}

pub fn pending_irq(rng: &mut Rng, p: &Pair, rate: u64) -> Option<(u8, u8)> {
    if !rng.chance(1, rate) { return None; }
    let v = 3 + rng.below(253) as u8;
    let mut pr = rng.below(8) as u8;
    if p.r.kbd_ie && pr == 4 { pr = 5; }
    Some((v, pr))
}

fn run(ctx: &mut Ctx) {
    run_structured(ctx);
    let n = ctx.tier.pick(6_000, 600_000);
    ctx.cases(0, n, |ctx, rng, idx| {
        let real = idx & 1 == 1; let ign = idx & 2 == 2;
        let kbd: Option<Vec<u8>> = if rng.chance(3, 4) { Some((0..rng.usize(5)).map(|_| rng.next() as u8).collect()) } else { None };
        let fill = rng.u16();
        let mut p = Pair::new(real, ign, false, fill, kbd.as_deref(), rng.chance(5, 6));
        let desc = random_state(rng, &mut p);
        let max_steps = 1 + rng.usize(64);
        let mut trace: Vec<String> = vec![];
        let mut executed = 0u64;
        let mut errs_seen = 0;
        for s in 0..max_steps {
            let cls = p.r.class_at_pc();
            let mode = mode_tag(&p.r);
            let pend = pending_irq(rng, &p, 8);
            let pc0 = p.r.pc;
            let (got, exp) = match crate::monitor::guard(|| p.step(pend)) {
                Ok(x) => x,
                Err(pi) => {
                    let case = desc.clone().set("real_traps", real).set("ignore_privilege", ign).set("trace", Json::Arr(trace.iter().map(|t| Json::from(t.as_str())).collect())).set("kbd", format!("{kbd:?}")).set("fill", fill);
                    ctx.violation(&format!("panic-in-step:{cls}:{}", pi.sig()), format!("step_in panicked at x{pc0:04X} ({cls}): {} ({}:{})", pi.msg, pi.file, pi.line), case);
                    return;
                }
            };
            ctx.eval();
            let kind = p.r.last_kind;
            let label = match kind { StepKind::InterruptEntry => "interrupt-entry".to_string(), _ if p.r.last_gated => format!("gated+{cls}"), _ => cls.to_string() };
            trace.push(format!("x{pc0:04X} {label}{}", pend.map(|(v, pr)| format!(" irq(x{v:02X},p{pr})")).unwrap_or_default()));
            let full = s % 16 == 15 || s + 1 == max_steps || got.is_err();
            if let Some(m) = p.compare(&got, exp, full) {
                let case = desc.clone().set("real_traps", real).set("ignore_privilege", ign).set("trace", Json::Arr(trace.iter().map(|t| Json::from(t.as_str())).collect())).set("kbd", format!("{kbd:?}")).set("fill", fill);
                let k = if kind == StepKind::InterruptEntry { "interrupt-entry" } else { cls };
                ctx.violation(&format!("{}:{k}:{mode}", m.component), format!("step {s} at x{pc0:04X} ({label}): {}", m.detail), case);
                return;
            }
            let out = match (&got, exp) { (Ok(()), Outcome::Halt) => "halt".to_string(), (Ok(()), _) => "ok".to_string(), (Err(e), _) => err_kind(e).to_string() };
            match kind {
                StepKind::InterruptEntry => ctx.count(&format!("interrupt-entry.{mode}")),
                StepKind::ExceptionEntry => ctx.count(&format!("exception-vectored.{out}.{cls}")),
                _ => {}
            }
            if p.r.last_gated { ctx.count("interrupt-gated"); }
            if kind != StepKind::InterruptEntry { ctx.count(&format!("step.{cls}.{mode}.{out}")); }
            if got.is_ok() && exp == Outcome::Ok { executed += 1; }
            if cls == "RTI" && got.is_ok() { ctx.count(if p.r.privileged() { "rti.to-supervisor" } else { "rti.to-user" }); }
            if got.is_err() || exp == Outcome::Halt { errs_seen += 1; if errs_seen >= 2 { break; } }
        }
        if executed > 0 { ctx.nontrivial(crate::rng::hash_bytes(desc.to_string().as_bytes()) ^ idx); }
        if p.r.frame_no >= 2 { ctx.count("episodes.nested-calls"); }
        if ctx.want_sample() && trace.len() >= 4 && trace.len() <= 10 { ctx.sample(desc.set("trace", Json::Arr(trace.iter().map(|t| Json::from(t.as_str())).collect()))); }
    });
}

/// Structured programs in lock-step (phase 1).
fn run_structured(ctx: &mut Ctx) {
    let n = ctx.tier.pick(1_500, 150_000);
    ctx.cases(1, n, |ctx, rng, idx| {
        let real = idx & 1 == 1; let ign = idx & 2 == 2 && rng.chance(1, 4);
        let opts = ProgOpts { faults: rng.chance(1, 3), unbalanced: rng.chance(1, 4), ..ProgOpts::default() };
        let prog = gen_user_prog(rng, &opts);
        let kbd: Vec<u8> = (0..prog.kbd_needed + rng.usize(3)).map(|_| 1 + rng.below(255) as u8).collect();
        let fill = rng.u16();
        let mut p = Pair::new(real, ign, false, fill, Some(&kbd), true);
        if p.load_text(&prog.text).is_err() { ctx.count("structured.not-assembled"); return; }
        let irq_rate = *rng.pick(&[0u64, 0, 40, 200]);
        let case = |trace: &Vec<String>| Json::obj().set("program", prog.text.as_str()).set("real_traps", real).set("ignore_privilege", ign).set("kbd", format!("{kbd:?}")).set("fill", fill).set("last_steps", Json::Arr(trace.iter().rev().take(12).rev().map(|t| Json::from(t.as_str())).collect()));
        let mut trace: Vec<String> = vec![];
        let cap = 6000;
        let mut finished = false;
        for sidx in 0..cap {
            let cls = p.r.class_at_pc();
            let mode = mode_tag(&p.r);
            let pend = if irq_rate > 0 { pending_irq(rng, &p, irq_rate) } else { None };
            let pc0 = p.r.pc;
            let (got, exp) = match crate::monitor::guard(|| p.step(pend)) { Ok(x) => x, Err(pi) => { ctx.violation(&format!("panic-in-step:{cls}:{}", pi.sig()), format!("step_in panicked at x{pc0:04X}: {}", pi.msg), case(&trace)); return; } };
            ctx.eval();
            let kind = p.r.last_kind;
            trace.push(format!("x{pc0:04X} {}", if kind == StepKind::InterruptEntry { "interrupt-entry" } else { cls }));
            if trace.len() > 32 { trace.remove(0); }
            let done = got.is_err() || exp == Outcome::Halt || (real && p.r.acc.get(&0xFFFE).is_some_and(|f| f & WRITTEN != 0) && !p.r.mcr);
            if let Some(m) = p.compare(&got, exp, sidx % 64 == 63 || done) {
                let k = if kind == StepKind::InterruptEntry { "interrupt-entry" } else { cls };
                ctx.violation(&format!("{}:{k}:{mode}", m.component), format!("structured program, step {sidx} at x{pc0:04X}: {}", m.detail), case(&trace)); return;
            }
            if kind != StepKind::InterruptEntry { let out = match (&got, exp) { (Ok(()), Outcome::Halt) => "halt".to_string(), (Ok(()), _) => "ok".to_string(), (Err(e), _) => err_kind(e).to_string() }; ctx.count(&format!("step.{cls}.{mode}.{out}")); }
            else { ctx.count(&format!("interrupt-entry.{mode}")); }
            if p.r.last_gated { ctx.count("interrupt-gated"); }
            if kind == StepKind::ExceptionEntry { ctx.count(&format!("exception-vectored.structured.{cls}")); }
            if cls == "RTI" && got.is_ok() { ctx.count(if p.r.privileged() { "rti.to-supervisor" } else { "rti.to-user" }); }
            if p.r.frame_no >= 2 { ctx.count("steps.at-nested-depth"); }
            if done { finished = true; break; }
        }
        ctx.nontrivial_str(&prog.text);
        ctx.count(if finished { "structured.finished" } else { "structured.step-cap" });
        ctx.count(&format!("structured.ending.{}", prog.ending.name()));
        for u in &prog.uses { ctx.count(&format!("structured.uses.{u}")); }
        if ctx.want_sample() && prog.text.len() < 900 { ctx.sample(Json::obj().set("program", prog.text.as_str()).set("ending", prog.ending.name())); }
    });
}

fn guard(m: &Merged, _t: Tier) -> Vec<String> {
    let mut out = vec![];
    for cls in ["BR", "ADDr", "ADDi", "ANDr", "ANDi", "LD", "ST", "JSR", "JSRR", "LDR", "STR", "RTI", "NOT", "LDI", "STI", "JMP", "LEA", "TRAP"] {
        for mode in ["user.virtual", "user.real", "super.virtual", "super.real"] { need_prefix(m, &mut out, &format!("step.{cls}.{mode}."), 1); }
    }
    for e in ["AccessViolation", "PrivilegeViolation", "IllegalOpcode", "InvalidInstrFormat", "halt"] { let v: u64 = m.counts.iter().filter(|(k, _)| k.starts_with("step.") && k.ends_with(e)).map(|(_, v)| *v).sum(); if v == 0 { out.push(format!("no step ended with {e}")); } }
    need_prefix(m, &mut out, "exception-vectored.", 10);
    need_prefix(m, &mut out, "interrupt-entry.", 20);
    for k in ["interrupt-gated", "rti.to-user", "rti.to-supervisor", "episodes.nested-calls", "structured.finished", "steps.at-nested-depth"] { need(m, &mut out, k, 5); }
    for u in ["loop", "JSR", "JSRR", "nested-call", "PUTS", "PUTSP", "OUT", "GETC/IN", "LDI", "STI", "stack-push-pop", "unbalanced-return"] { need(m, &mut out, &format!("structured.uses.{u}"), 5); }
    for e in ["halt", "acv-load", "acv-store", "acv-jump", "privilege-rti", "illegal-opcode", "bad-format"] { need(m, &mut out, &format!("structured.ending.{e}"), 3); }
    out
}

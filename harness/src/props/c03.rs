//! C03 Parser returns exactly the statements written, layout-insensitively.
use super::*;
use crate::asmutil::*;
use crate::gen::*;
use crate::json::Json;
use crate::refasm::analyze;

pub fn prop() -> Prop {
    Prop {
        id: "C03", title: "Parser returns exactly the statements written, layout-insensitively", level: "exploration",
        rule: "Generated statement lists are rendered to text twice with independent random surface syntax (keyword/register/directive/x-prefix case, every numeric notation with leading zeros, \
               spaces/tabs, optional colons, labels on their own lines, blank lines, hostile comments, LF/CRLF/mixed line ends, missing final newline, all string escapes). Each rendering is parsed by the crate; \
               the AST must equal the generated statements (labels, opcode, operands, string bytes), every stmt.span must equal the recorded nucleus byte range and every label span the recorded label range. \
               Well-formed programs are additionally assembled from both renderings and must give identical images and label tables. Non-trivial = at least 2 statements; distinct = distinct rendered texts.",
        assumptions: &["the renderer's own record of byte spans is the specification of 'span covering the instruction or directive text'"],
        run, guard,
        level_text: "Runtime monitoring of the real parser on generated texts with an exact structural oracle (the generator knows what it wrote) plus a metamorphic oracle on the assembled image; sampled, steered to surface-syntax variety.",
        level_note: "Trusts the renderer (it must produce the statement it claims); limited to the surface features the renderer knows.",
        technique: "generator-as-oracle structural comparison + metamorphic pairs",
        ..Prop::base("C03", "")
    }
}

fn check_parse(ctx: &mut Ctx, stmts: &[GStmt], r: &Rendered) -> bool {
    let case = || case_json(r);
    let Some(res) = ctx.no_panic("parse_ast", case, || lc3_ensemble::parse::parse_ast(&r.text)) else { return false };
    let ast = match res {
        Ok(a) => a,
        Err(e) => { ctx.violation("parser-rejects-grammatical-text", format!("parse error {e:?}"), case()); return false; }
    };
    if ast.len() != stmts.len() {
        ctx.violation("statement-count", format!("parsed {} statements, wrote {}", ast.len(), stmts.len()), case()); return false;
    }
    for (i, (got, exp)) in ast.iter().zip(stmts).enumerate() {
        let g = from_crate(got);
        let e = normalize(exp);
        if g != e {
            let part = if g.labels != e.labels { "labels" } else { "nucleus" };
            ctx.violation(&format!("ast-differs:{part}:{}", exp.k.name()), format!("statement {i}: parsed {g:?}, wrote {e:?}"), case()); return false;
        }
        let info = &r.stmts[i];
        if got.span != info.nucleus {
            ctx.violation(&format!("stmt-span:{}", exp.k.name()), format!("statement {i} span {:?} = {:?}, expected {:?} = {:?}", got.span, r.text.get(got.span.clone()), info.nucleus, &r.text[info.nucleus.clone()]), case()); return false;
        }
        for (li, l) in got.labels.iter().enumerate() {
            if l.span() != info.label_spans[li] {
                ctx.violation("label-span", format!("statement {i} label {} span {:?}, expected {:?}", l.name, l.span(), info.label_spans[li]), case()); return false;
            }
        }
        // operand label span
        use lc3_ensemble::ast::asm::{AsmInstr as A, Directive as D, StmtKind as S};
        use lc3_ensemble::ast::PCOffset as P;
        let opl = match &got.nucleus {
            S::Instr(A::BR(_, P::Label(l))) | S::Instr(A::JSR(P::Label(l))) | S::Instr(A::LD(_, P::Label(l))) | S::Instr(A::LDI(_, P::Label(l)))
            | S::Instr(A::LEA(_, P::Label(l))) | S::Instr(A::ST(_, P::Label(l))) | S::Instr(A::STI(_, P::Label(l))) | S::Instr(A::NOP(P::Label(l))) => Some(l.span()),
            S::Directive(D::Fill(P::Label(l))) | S::Directive(D::External(l)) => Some(l.span()),
            _ => None,
        };
        if opl != info.operand_label_span {
            ctx.violation("operand-label-span", format!("statement {i} operand label span {opl:?}, expected {:?}", info.operand_label_span), case()); return false;
        }
    }
    true
}

fn run(ctx: &mut Ctx) {
    let n = ctx.tier.pick(20_000, 1_500_000);
    ctx.cases(0, n, |ctx, rng, _| {
        let mut opts = GenOpts::default();
        opts.big_padding = rng.chance(1, 6);
        let mut prog = gen_program(rng, &opts);
        // the parser does not care about program structure: sometimes break it
        if rng.chance(1, 5) { let f = *rng.pick(&faults::FAULTS); faults::inject(rng, &mut prog, f); }
        // label names may continue with any Unicode word character: an eighth of the programs use such names throughout
        if rng.chance(1, 8) { let sfx = *rng.pick(&["é", "φ", "文", "данные", "ï2"]); widen_labels(&mut prog.stmts, sfx); ctx.count("programs.with-non-ascii-labels"); }
        let a = analyze(&prog.stmts);
        let s1 = if rng.chance(1, 6) { Style::plain() } else { Style::random(rng) };
        let s2 = Style::random(rng);
        let r1 = render(rng, &prog.stmts, &s1);
        let r2 = render(rng, &prog.stmts, &s2);
        ctx.evals(2);
        if prog.stmts.len() >= 2 { ctx.nontrivial_str(&r1.text); ctx.nontrivial_str(&r2.text); }
        for f in r1.features.iter().chain(r2.features.iter()) { ctx.count(&format!("feature.{f}")); }
        if !check_parse(ctx, &prog.stmts, &r1) { return; }
        if !check_parse(ctx, &prog.stmts, &r2) { return; }
        ctx.count("pairs.parsed");
        if !a.reject {
            // metamorphic: both renderings assemble to the same image and labels
            let case = || Json::obj().set("source_a", r1.text.as_str()).set("source_b", r2.text.as_str());
            let Some(o1) = ctx.no_panic("assemble", case, || asm(&r1.text, true)) else { return };
            let Some(o2) = ctx.no_panic("assemble", case, || asm(&r2.text, true)) else { return };
            match (o1, o2) {
                (Ok(Ok(o1)), Ok(Ok(o2))) => {
                    if image_of(&o1) != image_of(&o2) { ctx.violation("metamorphic-image-differs", "two renderings of the same statements assemble to different images", case()); return; }
                    let l = |o: &lc3_ensemble::asm::ObjectFile| -> std::collections::BTreeMap<String, (u16, bool)> { o.symbol_table().map(|s| s.label_iter().map(|(n, a, e)| (n.to_uppercase(), (a, e))).collect()).unwrap_or_default() };
                    if l(&o1) != l(&o2) { ctx.violation("metamorphic-labels-differ", "two renderings of the same statements give different label tables", case()); return; }
                    ctx.count("pairs.assembled-equal");
                }
                (x, y) => {
                    let d = |r: &Result<Result<lc3_ensemble::asm::ObjectFile, lc3_ensemble::asm::AsmErr>, String>| match r { Ok(Ok(_)) => "ok".to_string(), Ok(Err(e)) => format!("{:?}", e.kind), Err(e) => format!("parse: {e}") };
                    if d(&x) != d(&y) { ctx.violation("metamorphic-outcome-differs", format!("renderings assemble differently: {} vs {}", d(&x), d(&y)), case()); return; }
                    ctx.count("pairs.both-rejected");
                }
            }
        }
        if ctx.want_sample() && r1.text.len() < 300 && prog.stmts.len() >= 3 { ctx.sample(Json::obj().set("rendering_a", r1.text.as_str()).set("rendering_b", r2.text.as_str())); }
    });
}

fn guard(m: &Merged, _t: Tier) -> Vec<String> {
    let mut out = vec![];
    for f in ["crlf", "tab", "colon", "label-on-own-line", "blank-or-comment-line", "hostile-comment", "comment", "lowercase-keyword", "mixedcase-keyword",
              "num:#n", "num:n", "num:xH", "num:#-n", "num:-n", "num:x-H", "leading-zeros", "reg-leading-zero", "no-final-newline", "unknown-escape", "unknown-escape-non-ascii", "num:signed-zero"] {
        need(m, &mut out, &format!("feature.{f}"), 10);
    }
    need(m, &mut out, "pairs.parsed", 1000);
    need(m, &mut out, "pairs.assembled-equal", 500);
    out
}

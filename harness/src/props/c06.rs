//! C06 Instruction decoding is the exact inverse of encoding — exhaustive.
use super::*;
use crate::json::Json;
use crate::refasm::*;
use lc3_ensemble::ast::sim::SimInstr;
use lc3_ensemble::sim::SimErr;

pub fn prop() -> Prop {
    Prop {
        id: "C06", title: "Instruction decoding is the exact inverse of encoding", level: "exploration",
        rule: "Exhaustive: phase 0 = every 16-bit word decoded by the crate and by a table-driven reference decoder \
               (Ok/Err agreement, error kind, field values, re-encode == word); phase 1 = every representable instruction \
               (enumerated from the layout table: every opcode x every field value) built with the crate's checked constructors, \
               encoded, compared with the reference encoding and decoded back. A case is non-trivial if it is a distinct word \
               (all are); distinct = number of distinct words/instructions checked.",
        assumptions: &["the reference layout table (LC-3 ISA appendix A) is correct", "x86-64, profile verif (release semantics + debug assertions + overflow checks)"],
        exhaustive: always, shards: |_| 4, run, guard,
        level_text: "Exhaustive runtime check: all 65536 words and all representable instructions are pushed through the real decode/encode and compared with an independent table-driven reference; complete for the stated finite space.",
        level_note: "Trusts the harness's LC-3 layout table; checks the build profile it runs in (verif = release + debug assertions + overflow checks).",
        technique: "exhaustive differential monitoring against a reference decoder",
        ..Prop::base("C06", "")
    }
}

fn class_of(w: u16) -> String {
    let op = w >> 12;
    let name = ["BR","ADD","LD","ST","JSR","AND","LDR","STR","RTI","NOT","LDI","STI","JMP","RESERVED","LEA","TRAP"][op as usize];
    name.to_string()
}

fn run(ctx: &mut Ctx) {
    // phase 0: all words
    let r = ctx.my_slice(65536);
    for w in r {
        let w = w as u16;
        ctx.cur = (0, w as u64);
        ctx.eval();
        ctx.nontrivial_enum(1);
        let case = || Json::obj().set("word", format!("x{w:04X}"));
        let Some(got) = ctx.no_panic("decode", case, || SimInstr::decode(w)) else { continue };
        let exp = decode_ref(w);
        let cls = class_of(w);
        match (&got, &exp) {
            (Ok(i), Ok(ri)) => {
                ctx.count(&format!("accepted.{cls}"));
                let back = i.encode();
                if back != w {
                    ctx.violation(&format!("reencode-differs:{cls}"), format!("decode(x{w:04X}) = {i:?} re-encodes to x{back:04X}"), case());
                }
                if from_sim(i) != *ri {
                    ctx.violation(&format!("decode-fields-differ:{cls}"), format!("decode(x{w:04X}) = {i:?}, reference {ri:?}"), case());
                }
                if ctx.want_sample() && w % 9973 == 7 { ctx.sample(Json::obj().set("word", format!("x{w:04X}")).set("decoded", format!("{i:?}")).set("reference", format!("{ri:?}"))); }
            }
            (Ok(i), Err(e)) => {
                ctx.violation(&format!("decode-accepts-noncanonical:{cls}"), format!("decode(x{w:04X}) = {i:?} but the word is not a canonical encoding ({e:?}); re-encodes to x{:04X}", i.encode()), case());
            }
            (Err(e), Ok(ri)) => {
                ctx.violation(&format!("decode-rejects-canonical:{cls}"), format!("decode(x{w:04X}) = Err({e:?}) but the word is the canonical encoding of {ri:?}"), case());
            }
            (Err(e), Err(x)) => {
                ctx.count(&format!("rejected.{cls}"));
                let ok = matches!((e, x), (SimErr::IllegalOpcode, DecErr::IllegalOpcode) | (SimErr::InvalidInstrFormat, DecErr::InvalidFormat));
                if !ok { ctx.violation(&format!("wrong-error-kind:{cls}"), format!("decode(x{w:04X}) = Err({e:?}), expected {x:?}"), case()); }
                if ctx.want_sample() && w % 9973 == 8 { ctx.sample(Json::obj().set("word", format!("x{w:04X}")).set("rejected_as", format!("{e:?}"))); }
            }
        }
    }
    // phase 1: all representable instructions, enumerated from the layout table
    let mut all: Vec<(usize, u32)> = vec![];
    for (li, l) in LAYOUTS.iter().enumerate() { for v in 0..(1u32 << l.free_bits()) { all.push((li, v)); } }
    let r = ctx.my_slice(all.len() as u64);
    for k in r {
        ctx.cur = (1, k);
        let (li, v) = all[k as usize];
        let l = &LAYOUTS[li];
        // scatter the free bits of v into the word
        let (_, mut w) = l.mask_bits();
        let mut bit = 0;
        for (i, ch) in l.pattern.chars().rev().enumerate() {
            if ch != '0' && ch != '1' { if (v >> bit) & 1 == 1 { w |= 1 << i; } bit += 1; }
        }
        let ri = decode_ref(w).expect("table word decodes");
        ctx.eval();
        ctx.nontrivial_enum(1);
        ctx.count(&format!("instr.{}", l.name));
        let case = || Json::obj().set("instr", format!("{ri:?}")).set("word", format!("x{w:04X}"));
        let Some(si) = to_sim(&ri) else {
            ctx.violation(&format!("constructor-refuses:{}", l.name), format!("{ri:?} is representable but Offset::new refused a field"), case());
            continue;
        };
        let Some(enc) = ctx.no_panic("encode", case, || si.encode()) else { continue };
        if enc != w || encode_ref(&ri) != w {
            ctx.violation(&format!("encode-differs:{}", l.name), format!("encode({si:?}) = x{enc:04X}, reference x{w:04X}"), case());
            continue;
        }
        match SimInstr::decode(enc) {
            Ok(back) if back == si => {}
            other => ctx.violation(&format!("decode-encode-not-identity:{}", l.name), format!("decode(encode({si:?})) = {other:?}"), case()),
        }
    }
}

fn guard(m: &Merged, _t: Tier) -> Vec<String> {
    let mut out = vec![];
    let expect: u64 = 65536 + LAYOUTS.iter().map(|l| 1u64 << l.free_bits()).sum::<u64>();
    if m.evaluations != expect { out.push(format!("evaluations {} != all words + all instructions = {expect}", m.evaluations)); }
    for op in ["BR","ADD","LD","ST","JSR","AND","LDR","STR","RTI","NOT","LDI","STI","JMP","LEA","TRAP"] {
        need(m, &mut out, &format!("accepted.{op}"), 1);
    }
    need(m, &mut out, "rejected.RESERVED", 4096);
    for l in LAYOUTS { need(m, &mut out, &format!("instr.{}", l.name), 1); }
    out
}

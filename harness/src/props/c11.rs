//! C11 Built-in OS trap routines meet their contracts.
//! C12 Real and virtual traps agree except at HALT and exceptions.
use super::*;
use crate::json::Json;
use crate::progs::*;
use crate::rng::Rng;
use crate::simutil::*;
use lc3_ensemble::sim::device::{BufferedDisplay, BufferedKeyboard};
use lc3_ensemble::sim::mem::{MachineInitStrategy, Word};
use lc3_ensemble::sim::{SimErr, SimFlags, Simulator};

pub fn prop11() -> Prop {
    Prop {
        id: "C11", title: "Built-in OS trap routines meet their contracts", level: "exploration",
        rule: "Each trap x20-x25 is invoked from user code at a random user address with random R0-R7, condition codes, priority and keyboard queue, under virtual and real traps; strings of length 0-40 over bytes 1-255 (PUTS) and packed strings of odd/even/zero length (PUTSP) \
               are placed at random user addresses (including right below xFE00). The machine is stepped until PC is back at the word after the TRAP in user mode (bounded). Contract oracle, independent of the reference machine: display delta = exactly the expected bytes \
               (R0 low byte; string up to the zero word; packed low-then-high up to the first zero byte; 'Input character: ' + byte), keyboard consumed = 1 for GETC/IN else 0, R0 = the byte for GETC/IN, every other register, the whole PSR and every word of x3000-xFDFF unchanged. \
               HALT: run() returns Ok with hit_halt(), no output, and the instruction after it never runs. Non-trivial = every call; distinct = (trap, registers, string) hash.",
        assumptions: &["GETC/IN get their key either from the queue or, in a quarter of the calls, a bounded number of steps after the call started polling (otherwise the routine polls forever by design)", "PUTS emits the low byte of each word up to the first all-zero word (a quarter of the PUTS strings carry junk in the high byte)"],
        run: run11, guard: guard11,
        level_text: "Runtime contract monitoring of the real OS image executing on the real simulator, tens of thousands (quick) to millions (thorough) of trap calls with randomized machine state.",
        level_note: "Only the six documented traps; contract written from the property text, not from the OS source.",
        technique: "contract monitor over recorded I/O and machine state",
        ..Prop::base("C11", "")
    }
}
pub fn prop12() -> Prop {
    Prop {
        id: "C12", title: "Real and virtual traps agree except at HALT and exceptions", level: "exploration",
        rule: "Generated user programs (I/O traps incl. GETC/IN with queued input, subroutines, loops, stack manipulation), about a third ending in a chosen fault (load/store/jump into supervisor space, RTI in user mode, opcode 1101, bad must-be-zero bits), \
               are run from identical machines with virtual and with real traps. If the virtual run halts, the real run must end halted (through the OS) with equal display, R0-R5 and x3000-xFDFF. If the virtual run stops with AccessViolation / PrivilegeViolation / \
               IllegalOpcode / InvalidInstrFormat, the real run must end halted with display = virtual display + the OS message for that exception. Non-trivial = program that performs at least one trap or ends in a fault; distinct = distinct programs.",
        assumptions: &["OS messages are the three strings in os.asm ('--- Privilege violation ---', '--- Illegal opcode ---', '--- Access violation ---' each preceded by a newline)"],
        run: run12, guard: guard12,
        level_text: "Metamorphic runtime monitoring: thousands (quick) to hundreds of thousands (thorough) of generated programs executed under both trap settings and compared.",
        level_note: "Programs come from one generator; R6/R7 are excluded for halting programs as the property states (OS HALT clobbers R7, stacks are swapped).",
        technique: "metamorphic pair (same program, two configurations) with output/state comparison",
        ..Prop::base("C12", "")
    }
}

fn mk_sim(real: bool, fill: u16, kbd: &[u8]) -> (Simulator, BufferedKeyboard, BufferedDisplay) { mk_sim_cfg(real, fill, kbd, false, false) }
fn mk_sim_cfg(real: bool, fill: u16, kbd: &[u8], strict: bool, ign: bool) -> (Simulator, BufferedKeyboard, BufferedDisplay) { mk_sim_full(real, fill, kbd, strict, ign, false) }
fn mk_sim_full(real: bool, fill: u16, kbd: &[u8], strict: bool, ign: bool, dbg: bool) -> (Simulator, BufferedKeyboard, BufferedDisplay) {
    let mut sim = Simulator::new(SimFlags { use_real_traps: real, strict, ignore_privilege: ign, debug_frames: dbg, machine_init: MachineInitStrategy::Known { value: fill } });
    let kb = BufferedKeyboard::default(); kb.get_buffer().write().unwrap().extend(kbd.iter().copied()); sim.device_handler.set_keyboard(kb.clone());
    let ds = BufferedDisplay::default(); sim.device_handler.set_display(ds.clone());
    (sim, kb, ds)
}

fn run11(ctx: &mut Ctx) {
    let n = ctx.tier.pick(12_000, 1_000_000);
    ctx.cases(0, n, |ctx, rng, idx| {
        let real = idx & 1 == 1;
        let trap = 0x20 + (idx / 2 % 6) as u16;
        let kbd: Vec<u8> = (0..1 + rng.usize(4)).map(|_| rng.next() as u8).collect();
        // a quarter of the calls run in strict mode with some caller registers never written (their value is the machine's fill
        // value, still uninitialized): the routines save and restore them without using them, so the contract is unchanged
        let strict = rng.chance(1, 4);
        let fill = rng.u16();
        // a quarter of the non-strict calls run with privilege checks ignored (the stack switch depends on the PSR, not on the flag)
        let ign = !strict && rng.chance(1, 4);
        // a quarter of the GETC/IN calls find the queue empty and get their key only after some polling; in half of those the keyboard's
        // interrupt-enable bit is set (KBSR reads x4000 while empty) with the processor priority at or above the keyboard's, so no interrupt is taken
        let late_key = (trap == 0x20 || trap == 0x23) && rng.chance(1, 4);
        let late_ie = late_key && rng.bool();
        let late_after = 3 + rng.below(80);
        let (mut sim, kb, ds) = mk_sim_cfg(real, fill, if late_key { &[] } else { &kbd }, strict, ign);
        // where the call sits
        let a: u16 = match rng.below(5) { 0 => 0x3000, 1 => 0xFDFE, _ => 0x3000 + rng.below(0xCDF0) as u16 };
        sim.mem[a] = Word::new_init(0xF000 | trap);
        sim.mem[a.wrapping_add(1)] = Word::new_init(0xF025);
        // string
        let mut zero_low_terminator = false;
        let slen = match rng.below(6) { 0 => 0, 1 => 1, 2 => 2, _ => rng.usize(41) };
        let bytes: Vec<u8> = (0..slen).map(|_| 1 + rng.below(255) as u8).collect();
        // PUTS prints the low byte of every word up to the first zero *word*: some strings carry junk (including bit 15) in the high byte
        let high_junk = trap == 0x22 && slen > 0 && rng.chance(1, 4);
        let words: Vec<u16> = if high_junk { let mut w: Vec<u16> = bytes.iter().map(|b| *b as u16 | if rng.bool() { (rng.below(256) as u16) << 8 } else { 0 }).collect(); let k = rng.usize(w.len()); w[k] |= 0x8000; w.push(0); w } else if trap == 0x24 { let mut w: Vec<u16> = bytes.chunks(2).map(|c| c[0] as u16 | ((c.get(1).copied().unwrap_or(0) as u16) << 8)).collect(); if bytes.len() % 2 == 0 { if rng.chance(1, 3) { w.push((1 + rng.below(255) as u16) << 8); w.push(0x4141); zero_low_terminator = true; } else { w.push(0); } } w } else { let mut w: Vec<u16> = bytes.iter().map(|b| *b as u16).collect(); w.push(0); w };
        let s_addr: u16 = loop { let s = match rng.below(4) { 0 => 0xFE00 - words.len() as u16, 1 => 0x3002, _ => 0x3000 + rng.below(0xCE00 - words.len() as u64) as u16 }; let e = s + words.len() as u16; if e <= 0xFE00 && (e <= a || s > a + 1) { break s; } };
        for (i, w) in words.iter().enumerate() { sim.mem[s_addr + i as u16] = Word::new_init(*w); }
        let mut regs = [0u16; 8];
        let mut unwritten = 0u32;
        for (i, r) in regs.iter_mut().enumerate() {
            if strict && i != 0 && rng.chance(1, 2) { *r = fill; unwritten |= 1 << i; continue; }
            *r = rng.u16(); sim.reg_file[reg(i)].set(*r);
        }
        if trap == 0x22 || trap == 0x24 { regs[0] = s_addr; sim.reg_file[reg(0)].set(s_addr); }
        let psr = 0x8000 | ((if late_ie { 4 + rng.below(4) as u16 } else { rng.below(8) as u16 }) << 8) | *rng.pick(&[1u16, 2, 4]);
        if late_ie { sim.write_mem(0xFE00, Word::new_init(0x4000), priv_ctx()).unwrap(); }
        sim.write_mem(0xFFFC, Word::new_init(psr), priv_ctx()).unwrap();
        sim.pc = a;
        let before: Vec<u16> = (0x3000..0xFE00u16).map(|x| sim.mem[x].get()).collect();
        let name = ["GETC", "OUT", "PUTS", "IN", "PUTSP", "HALT"][(trap - 0x20) as usize];
        let tag = if real { "real" } else { "virtual" };
        ctx.eval();
        ctx.nontrivial(crate::rng::hash_bytes(format!("{trap}{regs:?}{bytes:?}{a}{s_addr}").as_bytes()));
        let case = || Json::obj().set("trap", name).set("real_traps", real).set("call_address", format!("x{a:04X}")).set("regs", format!("{regs:04X?}")).set("psr", format!("x{psr:04X}")).set("kbd", format!("{kbd:?}")).set("strict", strict).set("ignore_privilege", ign).set("key_arrives_after_step", if late_key { late_after as i64 } else { -1 }).set("kbd_interrupt_enable", late_ie).set("unwritten_register_mask", unwritten as u64).set("string_at", format!("x{s_addr:04X}")).set("string_bytes", format!("{bytes:?}"));
        if trap == 0x25 {
            let r = crate::monitor::guard(|| sim.run_with_limit(100_000));
            match r { Ok(Ok(())) if sim.hit_halt() => {}, other => { ctx.violation(&format!("halt-does-not-stop:{tag}"), format!("run() = {:?}, hit_halt = {}", other.map(|r| r.map_err(|e| err_kind(&e))).map_err(|p| p.msg), sim.hit_halt()), case()); return; } }
            if !ds.get_buffer().read().unwrap().is_empty() { ctx.violation("halt-prints", "HALT produced output", case()); return; }
            if kb.get_buffer().read().unwrap().len() != kbd.len() { ctx.violation("halt-consumes-input", "HALT consumed keyboard input", case()); return; }
            if !real && (sim.pc != a || (0..8).any(|i| sim.reg_file[reg(i)].get() != regs[i])) { ctx.violation("virtual-halt-changes-state", format!("pc x{:04X}", sim.pc), case()); return; }
            ctx.count(&format!("calls.HALT.{tag}"));
            return;
        }
        // step until back in user code after the TRAP
        let mut steps = 0;
        loop {
            let r = crate::monitor::guard(|| sim.step_in());
            match r { Ok(Ok(())) => {}, Ok(Err(e)) => { ctx.violation(&format!("trap-fails:{name}:{tag}"), format!("step {steps} failed with {}", err_kind(&e)), case()); return; } Err(p) => { ctx.violation(&format!("panic-in-trap:{name}"), p.msg, case()); return; } }
            steps += 1;
            if late_key && steps == late_after { kb.get_buffer().write().unwrap().extend(kbd.iter().copied()); }
            if sim.pc == a.wrapping_add(1) && !sim.psr().privileged() { break; }
            if steps > 20_000 { ctx.violation(&format!("trap-does-not-return:{name}:{tag}"), "no return to the caller within 20000 steps", case()); return; }
        }
        let disp = ds.get_buffer().read().unwrap().clone();
        if late_key && steps < late_after { ctx.violation(&format!("returns-before-a-key-is-available:{name}"), format!("the routine returned after {steps} steps although the keyboard queue was still empty (the key arrives after step {late_after}); R0 = x{:04X}", sim.reg_file[reg(0)].get()), case()); return; }
        let consumed = kbd.len() - kb.get_buffer().read().unwrap().len();
        let (exp_disp, exp_consumed, exp_r0): (Vec<u8>, usize, Option<u16>) = match trap {
            0x20 => (vec![], 1, Some(kbd[0] as u16)),
            0x21 => (vec![regs[0] as u8], 0, None),
            0x22 => (bytes.clone(), 0, None),
            0x23 => { let mut d = b"Input character: ".to_vec(); d.push(kbd[0]); (d, 1, Some(kbd[0] as u16)) }
            _ => (bytes.clone(), 0, None),
        };
        if disp != exp_disp { ctx.violation(&format!("wrong-output:{name}"), format!("display {:?}, expected {:?}", disp, exp_disp), case()); return; }
        if consumed != exp_consumed { ctx.violation(&format!("wrong-input-consumption:{name}"), format!("consumed {consumed} bytes, expected {exp_consumed}"), case()); return; }
        if exp_consumed == 1 && kb.get_buffer().read().unwrap().iter().copied().collect::<Vec<u8>>() != kbd[1..] { ctx.violation(&format!("wrong-input-remaining:{name}"), "remaining queue is not the tail of the input", case()); return; }
        for i in 0..8 {
            let v = sim.reg_file[reg(i)].get();
            let want = if i == 0 { exp_r0.unwrap_or(regs[0]) } else { regs[i] };
            if v != want { ctx.violation(&format!("register-not-preserved:{name}:R{i}"), format!("R{i} = x{v:04X} after the trap, expected x{want:04X}"), case()); return; }
        }
        if sim.psr().get() != psr { ctx.violation(&format!("psr-not-preserved:{name}"), format!("PSR x{:04X}, before x{psr:04X}", sim.psr().get()), case()); return; }
        if let Some(k) = (0..before.len()).find(|k| sim.mem[0x3000 + *k as u16].get() != before[*k]) { ctx.violation(&format!("user-memory-changed:{name}"), format!("mem[x{:04X}] changed", 0x3000 + k), case()); return; }
        ctx.count(&format!("calls.{name}.{tag}"));
        if strict && unwritten != 0 { ctx.count("calls.strict-with-unwritten-registers"); }
        if ign { ctx.count("calls.ignore-privilege"); }
        if late_key { ctx.count(if late_ie { "calls.key-arrives-late.interrupt-enable-set" } else { "calls.key-arrives-late" }); }
        if high_junk { ctx.count("strings.PUTS.words-with-high-byte-set"); }
        if zero_low_terminator { ctx.count("strings.PUTSP.terminated-by-zero-low-byte-with-nonzero-high-byte"); }
        if trap == 0x22 || trap == 0x24 { ctx.count(&format!("strings.{name}.len-{}", match slen { 0 => "0", 1 => "1", _ if slen % 2 == 1 => "odd", _ => "even" })); }
        if ctx.want_sample() && slen > 2 && slen < 12 && (trap == 0x24 || trap == 0x23) { ctx.sample(case().set("display", format!("{:?}", String::from_utf8_lossy(&disp))).set("steps", steps)); }
    });
}
fn guard11(m: &Merged, _t: Tier) -> Vec<String> {
    let mut out = vec![];
    for n in ["GETC", "OUT", "PUTS", "IN", "PUTSP", "HALT"] { for t in ["real", "virtual"] { need(m, &mut out, &format!("calls.{n}.{t}"), 100); } }
    need(m, &mut out, "strings.PUTSP.terminated-by-zero-low-byte-with-nonzero-high-byte", 20);
    need(m, &mut out, "strings.PUTS.words-with-high-byte-set", 20);
    need(m, &mut out, "calls.strict-with-unwritten-registers", 100);
    for k in ["calls.ignore-privilege", "calls.key-arrives-late", "calls.key-arrives-late.interrupt-enable-set"] { need(m, &mut out, k, 50); }
    for n in ["PUTS", "PUTSP"] { for l in ["0", "1", "odd", "even"] { need(m, &mut out, &format!("strings.{n}.len-{l}"), 20); } }
    out
}

struct End { result: Result<(), String>, halted: bool, display: Vec<u8>, regs: [u16; 8], user: Vec<u16>, instrs: u64,
    /// the same after calling run once more on the stopped machine: (result, halted, display, R0-R5)
    resumed: (Result<(), String>, bool, Vec<u8>, [u16; 6]) }
fn run_prog(text: &str, real: bool, fill: u16, kbd: &[u8], strict: bool, ign: bool, dbg: bool) -> Option<End> {
    let (mut sim, _kb, ds) = mk_sim_full(real, fill, kbd, strict, ign, dbg);
    let ast = lc3_ensemble::parse::parse_ast(text).ok()?;
    let obj = lc3_ensemble::asm::assemble(ast).ok()?;
    sim.load_obj_file(&obj).ok()?;
    let r = sim.run_with_limit(400_000);
    let display: Vec<u8> = { let g = ds.get_buffer().read().unwrap(); g.clone() };
    let mut end = End { result: r.map_err(|e: SimErr| err_kind(&e).to_string()), halted: sim.hit_halt(), display, regs: std::array::from_fn(|i| sim.reg_file[reg(i)].get()), user: (0x3000..0xFE00u16).map(|a| sim.mem[a].get()).collect(), instrs: sim.instructions_run, resumed: (Ok(()), false, vec![], [0; 6]) };
    let r2 = sim.run_with_limit(50_000);
    end.resumed = (r2.map_err(|e: SimErr| err_kind(&e).to_string()), sim.hit_halt(), ds.get_buffer().read().unwrap().clone(), std::array::from_fn(|i| sim.reg_file[reg(i)].get()));
    Some(end)
}

fn run12(ctx: &mut Ctx) {
    let n = ctx.tier.pick(4_000, 400_000);
    ctx.cases(0, n, |ctx, rng, _| {
        // configuration: a quarter of the pairs run in strict mode (programs that write every register they read, half of them
        // never touching R6), an eighth with privilege checks ignored (halting programs only: with checks off a "faulting"
        // program can read the supervisor stack, which legitimately differs between the two settings)
        let (strict, ign) = match rng.below(8) { 0 | 1 => (true, false), 2 => (false, true), _ => (false, false) };
        let dbg = rng.chance(1, 3); // frame recording must not change what the program does
        let opts = if strict { ProgOpts { faults: rng.chance(2, 5), strict_clean: true, no_stack: rng.bool(), ..ProgOpts::default() } }
            else if ign { ProgOpts { faults: false, unbalanced: false, ..ProgOpts::default() } }
            else { ProgOpts { faults: rng.chance(2, 5), unbalanced: rng.chance(1, 5), ..ProgOpts::default() } };
        let prog = gen_user_prog(rng, &opts);
        let kbd: Vec<u8> = (0..prog.kbd_needed + rng.usize(2)).map(|_| 1 + rng.below(255) as u8).collect();
        let fill = rng.u16();
        ctx.eval();
        let case = || Json::obj().set("program", prog.text.as_str()).set("kbd", format!("{kbd:?}")).set("fill", fill).set("strict", strict).set("ignore_privilege", ign).set("debug_frames", dbg);
        let Some(Some(v)) = ctx.no_panic("run(virtual)", case, || run_prog(&prog.text, false, fill, &kbd, strict, ign, dbg)) else { ctx.count("not-runnable"); return };
        let Some(Some(r)) = ctx.no_panic("run(real)", case, || run_prog(&prog.text, true, fill, &kbd, strict, ign, dbg)) else { ctx.count("not-runnable"); return };
        ctx.nontrivial_str(&prog.text);
        match &v.result {
            Ok(()) if v.halted => {
                if r.result.is_err() || !r.halted { ctx.violation("real-run-does-not-halt", format!("virtual run halted; real run: {:?}, halted {}", r.result, r.halted), case()); return; }
                if r.display != v.display { ctx.violation("display-differs:halting", format!("real {:?} vs virtual {:?}", String::from_utf8_lossy(&r.display), String::from_utf8_lossy(&v.display)), case()); return; }
                for i in 0..6 { if r.regs[i] != v.regs[i] { ctx.violation("registers-differ:halting", format!("R{i}: real x{:04X}, virtual x{:04X}", r.regs[i], v.regs[i]), case()); return; } }
                if let Some(k) = (0..v.user.len()).find(|k| v.user[*k] != r.user[*k]) { ctx.violation("user-memory-differs:halting", format!("mem[x{:04X}]: real x{:04X}, virtual x{:04X}", 0x3000 + k, r.user[k], v.user[k]), case()); return; }
                // once stopped, the machine stays stopped: another run call halts again at once, silently
                for (tag, e) in [("virtual", &v), ("real", &r)] {
                    if e.resumed.0.is_err() || !e.resumed.1 || e.resumed.2 != e.display || e.resumed.3[..] != e.regs[..6] { ctx.violation(&format!("resumed-run-not-silent:{tag}"), format!("running the halted {tag}-trap machine again: result {:?}, halted {}, display {:?} (was {:?}), R0-R5 {:04X?} (were {:04X?})", e.resumed.0, e.resumed.1, String::from_utf8_lossy(&e.resumed.2), String::from_utf8_lossy(&e.display), e.resumed.3, &e.regs[..6]), case()); return; }
                }
                ctx.count("pairs.halting");
                if dbg { ctx.count("pairs.debug-frames-on"); }
                if strict { ctx.count(if opts.no_stack { "pairs.halting.strict.R6-never-written" } else { "pairs.halting.strict" }); }
                if ign { ctx.count("pairs.halting.ignore-privilege"); }
                if r.instrs <= v.instrs { ctx.violation("real-halt-runs-no-os-code", "the real run executed no more instructions than the virtual one, so HALT did not go through the OS", case()); return; }
            }
            Ok(()) => { ctx.count("virtual-run-hit-limit"); return; }
            Err(kind) => {
                let msg: &[u8] = match kind.as_str() { "AccessViolation" => b"\n--- Access violation ---", "PrivilegeViolation" => b"\n--- Privilege violation ---", "IllegalOpcode" | "InvalidInstrFormat" => b"\n--- Illegal opcode ---", _ => { ctx.count("virtual-run-other-error"); return; } };
                if r.result.is_err() || !r.halted { ctx.violation(&format!("real-run-does-not-halt-after-exception:{kind}"), format!("real run: {:?}, halted {}", r.result, r.halted), case()); return; }
                let mut want = v.display.clone(); want.extend_from_slice(msg);
                if r.display != want { ctx.violation(&format!("exception-message-wrong:{kind}"), format!("real display {:?}, expected {:?}", String::from_utf8_lossy(&r.display), String::from_utf8_lossy(&want)), case()); return; }
                if r.resumed.0.is_err() || !r.resumed.1 || r.resumed.2 != r.display { ctx.violation("resumed-run-not-silent:real-after-exception", format!("running the real-trap machine again after the OS halted it: result {:?}, halted {}, display {:?} (was {:?})", r.resumed.0, r.resumed.1, String::from_utf8_lossy(&r.resumed.2), String::from_utf8_lossy(&r.display)), case()); return; }
                if dbg { ctx.count("pairs.debug-frames-on"); }
                ctx.count(&format!("pairs.faulting.{kind}"));
                if strict { ctx.count("pairs.faulting.strict"); }
            }
        }
        ctx.count(&format!("ending.{}", prog.ending.name()));
        for u in &prog.uses { ctx.count(&format!("uses.{u}")); }
        if ctx.want_sample() && prog.ending != Ending::Halt && prog.text.len() < 800 { ctx.sample(case().set("virtual_result", format!("{:?}", v.result)).set("real_display", format!("{:?}", String::from_utf8_lossy(&r.display)))); }
    });
}
fn guard12(m: &Merged, _t: Tier) -> Vec<String> {
    let mut out = vec![];
    need(m, &mut out, "pairs.halting", 500);
    for k in ["pairs.halting.strict", "pairs.halting.strict.R6-never-written", "pairs.halting.ignore-privilege", "pairs.faulting.strict", "pairs.debug-frames-on"] { need(m, &mut out, k, 30); }
    for k in ["AccessViolation", "PrivilegeViolation", "IllegalOpcode", "InvalidInstrFormat"] { need(m, &mut out, &format!("pairs.faulting.{k}"), 20); }
    for u in ["PUTS", "PUTSP", "OUT", "GETC/IN", "JSR", "nested-call", "stack-push-pop"] { need(m, &mut out, &format!("uses.{u}"), 50); }
    out
}

//! C13 Run, step-over, step-out and pauses equal repeated single steps.
use super::*;
use crate::json::Json;
use crate::progs::*;
use crate::rng::Rng;
use crate::simutil::*;
use lc3_ensemble::sim::debug::{Breakpoint, Comparator};
use lc3_ensemble::sim::device::{BufferedDisplay, BufferedKeyboard, InterruptFromFn};
use lc3_ensemble::sim::mem::MachineInitStrategy;
use lc3_ensemble::sim::{SimFlags, Simulator};
use std::sync::atomic::{AtomicBool, Ordering};
use std::sync::{Arc, Mutex};

pub fn prop() -> Prop {
    Prop {
        id: "C13", title: "Run, step-over, step-out and pauses equal repeated single steps", level: "exploration",
        rule: "Three identical simulators (known initialization, same generated program with calls, traps, loops and sometimes a fault ending, same keyboard input; virtual or real traps). Simulator A executes a random history of up to 12 calls drawn from \
               run, run_with_limit(0/1/2/5/50/1000), run_while(tripwire that stops at its k-th call), run_while(tripwire that clears MCR at its k-th call), step_over, step_out, step_in, interleaved with breakpoint insertions/removals (PC, register and memory breakpoints over all 8 comparators) \
               and a device that clears MCR at the k-th poll. Shadow B performs each call as a loop of step_in written in the harness from the documented stop conditions (MCR, tripwire, halt, error, breakpoint after an executed step, limit counted in instructions, frame depth - tracked by the shadow's own model of calls/traps/returns, not read from the implementation). \
               After every call: result, PC, R0-R7, PSR, instructions_run, frame depth, memory digest, display, hit_halt(), hit_breakpoint(), MCR off. Finally A (breakpoints removed) is run to the end and compared with C, which runs unbroken from the start. \
               Phase 1: a real second thread clears MCR during run() of a non-terminating program; run() must return and the state must equal a shadow stepped to the same instruction count. Non-trivial = history with at least 2 calls that executed instructions; distinct = (program, history).",
        assumptions: &["stop conditions as documented in sim.rs rustdoc", "comparators are re-implemented in the harness", "a wall-clock watchdog on the threaded phase gives 'inconclusive', never a violation"],
        run, guard,
        stages: || vec![st("tsan", "1", 24, 4, 1500)],
        level_text: "Runtime monitoring of every run-style API against a shadow that single-steps an identical simulator, over random call histories with breakpoints, limits, tripwires and MCR clears; plus a split-vs-unbroken comparison and a real-thread pause smoke test.",
        level_note: "Histories are sampled; the shadow encodes the documented conditions and is itself trusted.",
        technique: "shadow-execution monitor (step_in loop as executable specification) + split/unbroken metamorphic check",
        ..Prop::base("C13", "")
    }
}

#[derive(Clone, Debug)]
enum Call { Run, Limit(u64), WhileStop(u64), WhileClearMcr(u64), StepOver, StepOut, StepIn }
#[derive(Clone, Debug, PartialEq, Eq, Hash)]
enum Cmp { Never, Lt(u16), Eq(u16), Le(u16), Gt(u16), Ne(u16), Ge(u16), Always }
#[derive(Clone, Debug, PartialEq, Eq, Hash)]
enum Bp { Pc(u16), Reg(u8, Cmp), Mem(u16, Cmp) }
impl Cmp {
    fn check(&self, v: u16) -> bool { match *self { Cmp::Never => false, Cmp::Lt(r) => v < r, Cmp::Eq(r) => v == r, Cmp::Le(r) => v <= r, Cmp::Gt(r) => v > r, Cmp::Ne(r) => v != r, Cmp::Ge(r) => v >= r, Cmp::Always => true } }
    fn to_crate(&self) -> Comparator { match *self { Cmp::Never => Comparator::Never, Cmp::Lt(r) => Comparator::Lt(r), Cmp::Eq(r) => Comparator::Eq(r), Cmp::Le(r) => Comparator::Le(r), Cmp::Gt(r) => Comparator::Gt(r), Cmp::Ne(r) => Comparator::Ne(r), Cmp::Ge(r) => Comparator::Ge(r), Cmp::Always => Comparator::Always } }
}
impl Bp {
    fn check(&self, s: &Simulator) -> bool { match self { Bp::Pc(a) => s.pc == *a, Bp::Reg(r, c) => c.check(s.reg_file[reg(*r as usize)].get()), Bp::Mem(a, c) => c.check(s.mem[*a].get()) } }
    fn to_crate(&self) -> Breakpoint { match self { Bp::Pc(a) => Breakpoint::PC(*a), Bp::Reg(r, c) => Breakpoint::Reg { reg: reg(*r as usize), value: c.to_crate() }, Bp::Mem(a, c) => Breakpoint::Mem { addr: *a, value: c.to_crate() } } }
}

struct Inst { sim: Simulator, ds: BufferedDisplay, arm: Arc<Mutex<Option<u64>>>, depth: u64 }

/// One step_in of the shadow, keeping an independent model of the frame depth (calls, traps and exception entries push,
/// RET / JMP R7 and RTI pop, saturating at zero) so that step_over/step_out conditions do not rely on the depth the
/// implementation reports.
fn shadow_step(b: &mut Inst, real: bool) -> Result<(), lc3_ensemble::sim::SimErr> {
    let (pc0, ir0) = (b.sim.pc, b.sim.instructions_run);
    let w = b.sim.mem[pc0].get();
    let r = b.sim.step_in();
    if r.is_ok() {
        let executed = b.sim.instructions_run != ir0;
        if executed {
            match w >> 12 { 0b0100 => b.depth += 1, 0b1111 => b.depth += 1, 0b1100 if w == 0xC1C0 => b.depth = b.depth.saturating_sub(1), 0b1000 => b.depth = b.depth.saturating_sub(1), _ => {} }
        } else if !(w == 0xF025 && !real && b.sim.pc == pc0) {
            // no instruction completed but the step succeeded: an exception was vectored to the OS (real traps)
            b.depth += 1;
        }
    }
    r
}
fn mk(text: &str, real: bool, fill: u16, kbd: &[u8], dbg: bool) -> Option<Inst> {
    let mut sim = Simulator::new(SimFlags { use_real_traps: real, debug_frames: dbg, machine_init: MachineInitStrategy::Known { value: fill }, ..Default::default() });
    let kb = BufferedKeyboard::default(); kb.get_buffer().write().unwrap().extend(kbd.iter().copied()); sim.device_handler.set_keyboard(kb);
    let ds = BufferedDisplay::default(); sim.device_handler.set_display(ds.clone());
    let ast = lc3_ensemble::parse::parse_ast(text).ok()?;
    let obj = lc3_ensemble::asm::assemble(ast).ok()?;
    sim.load_obj_file(&obj).ok()?;
    let arm: Arc<Mutex<Option<u64>>> = Arc::new(Mutex::new(None));
    let (a2, mcr): (_, Arc<AtomicBool>) = (arm.clone(), sim.mcr().clone());
    sim.device_handler.add_device(InterruptFromFn::new(move || { let mut g = a2.lock().unwrap(); if let Some(k) = g.as_mut() { if *k == 0 { mcr.store(false, Ordering::Relaxed); *g = None; } else { *k -= 1; } } None }), &[]).ok()?;
    Some(Inst { sim, ds, arm, depth: 0 })
}
fn digest(s: &Simulator) -> u64 { let mut h = 0xcbf29ce484222325u64; for a in 0..=0xFFFFu16 { h ^= s.mem[a].get() as u64; h = h.wrapping_mul(0x100000001b3); } h }
fn state(i: &Inst) -> (u16, [u16; 8], u16, u64, u64, u64, Vec<u8>) {
    (i.sim.pc, std::array::from_fn(|k| i.sim.reg_file[reg(k)].get()), i.sim.psr().get(), i.sim.instructions_run, i.sim.frame_stack.len(), digest(&i.sim), i.ds.get_buffer().read().unwrap().clone())
}
fn diff_state(a: &Inst, b: &Inst) -> Option<String> {
    let (x, y) = (state(a), state(b));
    if x.0 != y.0 { return Some(format!("pc x{:04X} vs shadow x{:04X}", x.0, y.0)); }
    if x.1 != y.1 { return Some(format!("registers {:04X?} vs shadow {:04X?}", x.1, y.1)); }
    if x.2 != y.2 { return Some(format!("psr x{:04X} vs x{:04X}", x.2, y.2)); }
    if x.3 != y.3 { return Some(format!("instructions_run {} vs shadow {}", x.3, y.3)); }
    if x.4 != y.4 { return Some(format!("frame depth {} vs {}", x.4, y.4)); }
    if x.5 != y.5 { return Some("memory differs".into()); }
    if x.6 != y.6 { return Some("display differs".into()); }
    None
}

#[derive(Clone, Copy, Debug, PartialEq, Eq)]
enum Reason { Halt, McrOff, Breakpoint, Tripwire, Error, NotRun }

/// The documented semantics, as a loop of step_in on the shadow.
fn shadow(b: &mut Inst, call: &Call, bps: &[Bp], real: bool) -> (Result<(), String>, Reason, u64, bool) {
    let mcr = b.sim.mcr().clone();
    if let Call::StepIn = call {
        let r = shadow_step(b, real).map_err(|e| err_kind(&e).to_string());
        // a single step that stores to the MCR port is the program halting itself (OS HALT routine under real traps):
        // single steps do not look at MCR, so the execution is over from here on (reported to the caller as Halt)
        let halted = b.sim.observer.get_mem_accesses(0xFFFE).written() && !mcr.load(Ordering::Relaxed);
        return (r, Reason::NotRun, 1, halted);
    }
    let start_depth = b.depth;
    if let Call::StepOut = call { if start_depth == 0 { return (Ok(()), Reason::NotRun, 0, false); } }
    mcr.store(true, Ordering::Relaxed);
    let start_ir = b.sim.instructions_run;
    let mut first = true; let mut calls = 0u64; let mut steps = 0u64; let mut fired = false;
    let out = loop {
        if !mcr.load(Ordering::Relaxed) { break (Ok(()), Reason::McrOff); }
        let cont = match call {
            Call::Run => true,
            Call::Limit(n) => b.sim.instructions_run.wrapping_sub(start_ir) < *n,
            Call::WhileStop(k) => { calls += 1; calls != *k }
            Call::WhileClearMcr(k) => { calls += 1; if calls == *k { mcr.store(false, Ordering::Relaxed); fired = true; } true }
            Call::StepOver => { let f = first; first = false; f || start_depth < b.depth }
            Call::StepOut => { let f = first; first = false; f || start_depth <= b.depth }
            Call::StepIn => unreachable!(),
        };
        if !cont { break (Ok(()), Reason::Tripwire); }
        let (pc0, ir0, d0) = (b.sim.pc, b.sim.instructions_run, b.sim.frame_stack.len());
        let w = b.sim.mem[pc0].get();
        if let Err(e) = shadow_step(b, real) { break (Err(err_kind(&e).to_string()), Reason::Error); }
        steps += 1;
        if steps > 3_000_000 { break (Err("shadow-step-bound".into()), Reason::Error); }
        // virtual HALT leaves the machine untouched
        if !real && w == 0xF025 && b.sim.pc == pc0 && b.sim.instructions_run == ir0 && b.sim.frame_stack.len() == d0 { break (Ok(()), Reason::Halt); }
        // a step that turned MCR off has halted the program: halting takes precedence over a breakpoint on the same step
        if !mcr.load(Ordering::Relaxed) { break (Ok(()), Reason::McrOff); }
        if bps.iter().any(|bp| bp.check(&b.sim)) { break (Ok(()), Reason::Breakpoint); }
    };
    // did the program itself store to the MCR port in the last executed step (OS HALT routine)?
    let program_halted = out.1 == Reason::Halt || (steps > 0 && out.0.is_ok() && !mcr.load(Ordering::Relaxed) && b.sim.observer.get_mem_accesses(0xFFFE).written());
    mcr.store(false, Ordering::Relaxed);
    let _ = fired;
    (out.0, out.1, steps, program_halted)
}

fn exec(a: &mut Inst, call: &Call) -> Result<(), String> {
    let r = match call {
        Call::Run => a.sim.run(),
        Call::Limit(n) => a.sim.run_with_limit(*n),
        Call::WhileStop(k) => { let mut c = 0u64; let k = *k; a.sim.run_while(move |_| { c += 1; c != k }) }
        Call::WhileClearMcr(k) => { let mut c = 0u64; let k = *k; a.sim.run_while(move |s| { c += 1; if c == k { s.mcr().store(false, Ordering::Relaxed); } true }) }
        Call::StepOver => a.sim.step_over(),
        Call::StepOut => a.sim.step_out(),
        Call::StepIn => a.sim.step_in(),
    };
    r.map_err(|e| err_kind(&e).to_string())
}

fn gen_bp(rng: &mut Rng, labels: &[u16]) -> Bp {
    let cmp = |rng: &mut Rng, v: u16| match rng.below(8) { 0 => Cmp::Never, 1 => Cmp::Lt(v), 2 => Cmp::Eq(v), 3 => Cmp::Le(v), 4 => Cmp::Gt(v), 5 => Cmp::Ne(v), 6 => Cmp::Ge(v), _ => Cmp::Always };
    match rng.below(5) {
        0 | 1 => Bp::Pc(if rng.chance(3, 4) && !labels.is_empty() { *rng.pick(labels) } else { 0x3000 + rng.below(0x80) as u16 }),
        2 | 3 => { let v = *rng.pick(&[0u16, 1, 5, 0xFFFF, 0x8000, 0x3000]); let c = match rng.below(6) { 0 => Cmp::Always, 1 => Cmp::Never, _ => cmp(rng, v) }; Bp::Reg(rng.below(8) as u8, if matches!(c, Cmp::Always) && rng.chance(2, 3) { Cmp::Eq(v) } else { c }) }
        // memory breakpoints also on I/O addresses: the comparator sees the word latched in memory (display data, last key, ...)
        _ if rng.chance(1, 4) => { let a = *rng.pick(&[0xFE06u16, 0xFE06, 0xFE02, 0xFE04, 0xFE00, 0xFFFC]); let v = if a == 0xFE06 || a == 0xFE02 { 0x21 + rng.below(0x5d) as u16 } else { *rng.pick(&[0u16, 0x8000, 0x8002]) }; Bp::Mem(a, match rng.below(4) { 0 | 1 => Cmp::Eq(v), 2 => Cmp::Gt(v), _ => Cmp::Ge(v) }) }
        _ => { let a = if rng.bool() && !labels.is_empty() { *rng.pick(labels) } else { 0x3000 + rng.below(0x100) as u16 }; let v = rng.u16() & 0xFF; Bp::Mem(a, match rng.below(4) { 0 => Cmp::Eq(v), 1 => Cmp::Ne(v), 2 => Cmp::Lt(v), _ => Cmp::Ge(v) }) }
    }
}

fn run(ctx: &mut Ctx) {
    let n = ctx.tier.pick(2_500, 250_000);
    ctx.cases(0, n, |ctx, rng, _| {
        let real = rng.bool();
        let opts = ProgOpts { faults: rng.chance(1, 5), unbalanced: rng.chance(1, 4), ..ProgOpts::default() };
        let prog = gen_user_prog(rng, &opts);
        let kbd: Vec<u8> = (0..prog.kbd_needed + 1).map(|_| 1 + rng.below(255) as u8).collect();
        let fill = rng.u16();
        let dbg = rng.chance(1, 3); // recording frames must not change where run-style calls stop
        let (Some(mut a), Some(mut b), Some(mut c)) = (mk(&prog.text, real, fill, &kbd, dbg), mk(&prog.text, real, fill, &kbd, dbg), mk(&prog.text, real, fill, &kbd, dbg)) else { ctx.count("not-assembled"); return };
        // statement addresses for breakpoints
        // the instruction counter is a public field: start it near the wrap-around point in some cases
        if rng.chance(1, 5) { let c0 = *rng.pick(&[u64::MAX - 2, u64::MAX - 40, u64::MAX, 1u64 << 63]); a.sim.instructions_run = c0; b.sim.instructions_run = c0; c.sim.instructions_run = c0; }
        let labels: Vec<u16> = (0x3000..0x3000 + prog.stmts.iter().map(|s| s.k.size()).sum::<u32>() as u16).collect();
        let mut bps: Vec<Bp> = vec![];
        let ncalls = 1 + rng.usize(12);
        let mut hist: Vec<String> = vec![];
        let (mut exp_halt, mut exp_bp) = (false, false);
        let mut productive = 0;
        let mut ended = false;
        let mut last_result: Result<(), String> = Ok(());
        for _ in 0..ncalls {
            // configuration edits
            if rng.chance(1, 3) { let bp = gen_bp(rng, &labels); if !bps.contains(&bp) { a.sim.breakpoints.insert(bp.to_crate()); bps.push(bp.clone()); hist.push(format!("insert {bp:?}")); } }
            if rng.chance(1, 6) && !bps.is_empty() { let i = rng.usize(bps.len()); let bp = bps.remove(i); a.sim.breakpoints.remove(&bp.to_crate()); hist.push(format!("remove {bp:?}")); }
            let mut armed = false;
            if rng.chance(1, 6) { let k = rng.below(40); *a.arm.lock().unwrap() = Some(k); *b.arm.lock().unwrap() = Some(k); armed = true; hist.push(format!("device clears MCR at poll {k}")); }
            let call = match rng.below(12) { 0 | 1 => Call::Run, 2 | 3 => Call::Limit(*rng.pick(&[0u64, 1, 2, 5, 50, 1000, u64::MAX, u64::MAX - 3, 1 << 63])), 4 => Call::WhileStop(1 + rng.below(30)), 5 => Call::WhileClearMcr(1 + rng.below(30)), 6 | 7 => Call::StepOver, 8 | 9 => Call::StepOut, _ => Call::StepIn };
            hist.push(format!("{call:?}"));
            ctx.eval();
            let case = || Json::obj().set("program", prog.text.as_str()).set("real_traps", real).set("debug_frames", dbg).set("kbd", format!("{kbd:?}")).set("fill", fill).set("history", Json::Arr(hist.iter().map(|h| Json::from(h.as_str())).collect()));
            let ir0 = a.sim.instructions_run;
            let Some(got) = ctx.no_panic("run-style call", case, || exec(&mut a, &call)) else { return };
            last_result = got.clone();
            let (want, reason, _steps, program_halted) = shadow(&mut b, &call, &bps, real);
            if want.as_ref().err().is_some_and(|e| e == "shadow-step-bound") { ctx.count("inconclusive.shadow-step-bound"); return; }
            let api = format!("{call:?}").split('(').next().unwrap().to_string();
            if got != want { ctx.violation(&format!("result-differs:{api}"), format!("{call:?} returned {got:?}, repeated single steps give {want:?} (stop reason {reason:?})"), case()); return; }
            if let Some(d) = diff_state(&a, &b) { ctx.violation(&format!("state-differs:{api}:{reason:?}"), format!("after {call:?} (shadow stop reason {reason:?}): {d}"), case()); return; }
            if reason != Reason::NotRun && !matches!(call, Call::StepIn) { exp_halt = matches!(reason, Reason::Halt | Reason::McrOff); exp_bp = reason == Reason::Breakpoint; }
            if !matches!(call, Call::StepIn) {
                if a.sim.hit_halt() != exp_halt { ctx.violation(&format!("hit_halt-wrong:{api}:{reason:?}"), format!("hit_halt() = {}, expected {exp_halt}", a.sim.hit_halt()), case()); return; }
                if a.sim.hit_breakpoint() != exp_bp { ctx.violation(&format!("hit_breakpoint-wrong:{api}:{reason:?}"), format!("hit_breakpoint() = {}, expected {exp_bp}", a.sim.hit_breakpoint()), case()); return; }
                if a.sim.mcr().load(Ordering::Relaxed) { ctx.violation("mcr-left-on", "MCR is still set after the call returned", case()); return; }
            }
            ctx.count(&format!("stop.{api}.{reason:?}"));
            if a.sim.instructions_run > ir0 { productive += 1; }
            // did the harness itself clear MCR during this call (tripwire or armed device)?
            let _ = armed;
            *a.arm.lock().unwrap() = None; *b.arm.lock().unwrap() = None;
            // the execution is over once the program halted or failed: resuming after that is outside the property
            if got.is_err() || program_halted { ended = true; break; }
        }
        if productive >= 2 { ctx.nontrivial(crate::rng::hash_bytes(format!("{}{hist:?}", prog.text).as_bytes())); }
        // split vs unbroken
        a.sim.breakpoints.clear();
        let case = || Json::obj().set("program", prog.text.as_str()).set("real_traps", real).set("debug_frames", dbg).set("kbd", format!("{kbd:?}")).set("fill", fill).set("history", Json::Arr(hist.iter().map(|h| Json::from(h.as_str())).collect()));
        let ra = if ended { Ok(()) } else { a.sim.run_with_limit(2_000_000).map_err(|e| err_kind(&e).to_string()) };
        let ra = if ended { hist.last().map(|_| ()).map(|_| last_result.clone()).unwrap_or(Ok(())) } else { ra };
        let rc = c.sim.run_with_limit(2_000_000).map_err(|e| err_kind(&e).to_string());
        if ra != rc { ctx.violation("split-run-result-differs", format!("resumed run ends with {ra:?}, unbroken run with {rc:?}"), case()); return; }
        if let Some(d) = diff_state(&a, &c) { ctx.violation("split-run-state-differs", format!("paused/resumed execution vs one unbroken run: {d}"), case()); return; }
        ctx.count("split-vs-unbroken.equal");
        if ctx.want_sample() && hist.len() >= 4 && prog.text.len() < 700 { ctx.sample(case()); }
    });
    // phase 1: a real thread clears MCR
    let n = ctx.tier.pick_exact(24, 2_000);
    ctx.cases(1, n, |ctx, rng, _| {
        let text = ".orig x3000\nAND R0, R0, #0\nLOOP ADD R0, R0, #1\nST R0, CELL\nLD R1, CELL\nBR LOOP\nCELL .blkw 1\n.end\n";
        let (Some(mut a), Some(mut b)) = (mk(text, rng.bool(), 7, &[], false), mk(text, false, 7, &[], false)) else { return };
        b.sim.flags.use_real_traps = a.sim.flags.use_real_traps;
        let mcr = a.sim.mcr().clone();
        let delay = std::time::Duration::from_micros(50 + rng.below(3000));
        ctx.eval();
        let t = std::thread::spawn(move || { std::thread::sleep(delay); let t0 = std::time::Instant::now(); while t0.elapsed() < std::time::Duration::from_secs(20) { mcr.store(false, Ordering::SeqCst); std::thread::sleep(std::time::Duration::from_micros(50)); } });
        let t0 = std::time::Instant::now();
        let r = a.sim.run_with_limit(2_000_000_000);
        let el = t0.elapsed();
        let case = || Json::obj().set("program", text).set("delay_us", delay.as_micros() as u64);
        // stop the helper thread quickly: it only stores false, harmless
        drop(t);
        if el > std::time::Duration::from_secs(15) { ctx.count("inconclusive.thread-watchdog"); return; }
        if r.is_err() { ctx.violation("threaded-pause:error", format!("{:?}", r.map_err(|e| err_kind(&e))), case()); return; }
        if !a.sim.hit_halt() { ctx.violation("threaded-pause:not-reported-as-mcr-off", "run returned without hit_halt() although MCR was cleared", case()); return; }
        let nrun = a.sim.instructions_run;
        for _ in 0..nrun { if b.sim.step_in().is_err() { break; } }
        let _ = b.depth;
        if let Some(d) = diff_state(&a, &b) { ctx.violation("threaded-pause:state-differs", format!("after an asynchronous MCR clear at {nrun} instructions: {d}"), case()); return; }
        ctx.nontrivial(nrun);
        ctx.count("threaded-pause.ok");
    });
}

fn guard(m: &Merged, _t: Tier) -> Vec<String> {
    let mut out = vec![];
    for k in ["stop.Run.Halt", "stop.Run.Breakpoint", "stop.Run.McrOff", "stop.Run.Error", "stop.Limit.Tripwire", "stop.Limit.Breakpoint", "stop.WhileStop.Tripwire", "stop.WhileClearMcr.McrOff", "stop.StepOver.Tripwire", "stop.StepOver.Breakpoint",
              "stop.StepOut.Tripwire", "stop.StepOut.NotRun", "stop.StepOut.Breakpoint", "stop.StepOut.McrOff", "stop.StepIn.NotRun", "split-vs-unbroken.equal", "threaded-pause.ok"] { need(m, &mut out, k, 3); }
    out
}

//! C20 Linking unions images, resolves externals, and is order-independent.
//! C22 Linked debug info still points at the right source text.
use super::*;
use crate::json::Json;
use crate::objutil::*;
use lc3_ensemble::asm::ObjectFile;

pub fn prop20() -> Prop {
    Prop {
        id: "C20", title: "Linking unions images, resolves externals, and is order-independent", level: "exploration",
        rule: "Sets of 2-4 generated files sharing a pool of label names (labels defined by 0-2 files, .external + .fill uses declared before/inside/after blocks, unused external declarations, blocks that touch, collide or overlap, \
               the same label defined at the same address by two touching files, blocks at x0000 and ending at xFE00) are assembled with debug symbols and linked with the crate's linker in EVERY permutation and EVERY bracketing \
               (2, 12 or 120 link trees per set). Every tree must agree with a reference linker: success iff blocks are pairwise disjoint and no label has two defining addresses; image = union with resolved .fill words; \
               label addresses and external flags; pending relocations (read from the text serialization). Non-trivial = set with at least one shared/external/conflicting label or touching/overlapping block; distinct = distinct source sets.",
        assumptions: &["reference linker in objutil::ref_link", "pending relocations are observed through TextFormat's .LINKER_INFO table"],
        exhaustive: never, run: run20, guard: guard20,
        level_text: "Differential runtime monitoring, exhaustive over link order and grouping for each generated set (all 2/12/120 trees), sampled over the sets themselves.",
        level_note: "Trusts the reference linker; file sets come from one generator with a 6-name label pool.",
        technique: "differential monitoring against a reference linker over all link trees of generated file sets",
        ..Prop::base("C20", "")
    }
}
pub fn prop22() -> Prop {
    Prop {
        id: "C22", title: "Linked debug info still points at the right source text", level: "exploration",
        rule: "Pairs and triples (and some quadruples) of generated files with debug symbols are linked in every order and bracketing; in every successful result, for every memory-occupying statement of every input file \
               rev_lookup_line(address) must name a line whose read_line text equals the text of that statement's line in its own file, lookup_line of that line must give the address back, and for every label get_label_source must \
               return a span whose text in the combined source is a spelling of the label. Non-trivial = successful link of files that all have statements; distinct = distinct source sets.",
        assumptions: &["the renderer's record of which line each statement is on"],
        exhaustive: never, run: run22, guard: guard22,
        level_text: "Runtime monitor of the linker's debug-info merge against the per-file ground truth, over every link order/bracketing of generated file sets.",
        level_note: "Sampled sets; checks text equality of lines and labels, not column positions of statements.",
        technique: "ground-truth comparison over all link trees",
        ..Prop::base("C22", "")
    }
}

fn assemble_set(ctx: &mut Ctx, files: &[LinkFile], debug: bool) -> Option<Vec<ObjectFile>> {
    let mut objs = vec![];
    for f in files {
        if f.a.reject { ctx.count("set.file-ill-formed"); return None; }
        match crate::asmutil::asm(&f.r.text, debug) { Ok(Ok(o)) => objs.push(o), _ => { ctx.count("set.file-not-assembled"); return None; } }
    }
    Some(objs)
}
fn set_case(files: &[LinkFile], tree: &str) -> Json {
    Json::obj().set("tree", tree).set("sources", Json::Arr(files.iter().map(|f| Json::from(f.r.text.as_str())).collect()))
}

fn run20(ctx: &mut Ctx) {
    let n = ctx.tier.pick(2_500, 150_000);
    ctx.cases(0, n, |ctx, rng, _| {
        let nf = match rng.below(6) { 0 | 1 => 2, 2..=4 => 3, _ => 4 };
        let files = gen_link_set(rng, nf, true);
        let Some(objs) = assemble_set(ctx, &files, true) else { return };
        let an: Vec<&crate::refasm::Analysis> = files.iter().map(|f| &f.a).collect();
        let expect = ref_link(&an);
        let trees = all_trees(nf);
        let key: String = files.iter().map(|f| f.r.text.as_str()).collect::<Vec<_>>().join("\u{0}");
        ctx.nontrivial_str(&key);
        ctx.count(&format!("sets.{}-files.{}", nf, if expect.is_some() { "linkable" } else { "conflicting" }));
        if let Some(e) = &expect { if !e.pending.is_empty() { ctx.count("sets.with-pending-relocations"); } if files.iter().any(|f| !f.a.relocs.is_empty()) && e.pending.len() < files.iter().map(|f| f.a.relocs.len()).sum::<usize>() { ctx.count("sets.with-resolved-relocations"); } }
        for t in &trees {
            ctx.eval();
            let show = t.show();
            let case = || set_case(&files, &show);
            let Some(res) = ctx.no_panic("ObjectFile::link", case, || eval_tree(t, &objs)) else { return };
            match (&expect, res) {
                (Some(e), Ok(o)) => {
                    let v = view_of(&o);
                    if v != *e {
                        let part = if v.image != e.image { "image" } else if v.labels != e.labels { "labels" } else { "pending-relocations" };
                        let detail = match part {
                            "image" => format!("{:X?}", e.image.iter().find(|(k, w)| v.image.get(k) != Some(w)).map(|(k, w)| (k, w, v.image.get(k)))),
                            "labels" => format!("{:?}", e.labels.iter().find(|(k, w)| v.labels.get(*k) != Some(w)).map(|(k, w)| (k, w, v.labels.get(k)))),
                            _ => format!("expected {:X?}, got {:X?}", e.pending, v.pending),
                        };
                        ctx.violation(&format!("link-result-differs:{part}"), format!("tree {show}: {part} differs from the reference linker: {detail}"), case()); return;
                    }
                    ctx.count("trees.ok");
                }
                (None, Err(_)) => ctx.count("trees.rejected"),
                (Some(_), Err(k)) => { ctx.violation(&format!("link-rejects-compatible-files:{k}"), format!("tree {show} failed with {k}, but blocks are disjoint and labels consistent"), case()); return; }
                (None, Ok(_)) => { ctx.violation("link-accepts-conflicting-files", format!("tree {show} succeeded although blocks overlap or a label has two addresses"), case()); return; }
            }
        }
        if ctx.want_sample() && nf == 2 && key.len() < 500 { ctx.sample(set_case(&files, "all 2 trees").set("linkable", expect.is_some())); }
    });
}
fn guard20(m: &Merged, _t: Tier) -> Vec<String> {
    let mut out = vec![];
    for k in ["sets.2-files.linkable", "sets.3-files.linkable", "sets.4-files.linkable", "sets.3-files.conflicting", "sets.with-pending-relocations", "sets.with-resolved-relocations"] { need(m, &mut out, k, 10); }
    need(m, &mut out, "trees.ok", 1000); need(m, &mut out, "trees.rejected", 1000);
    out
}

fn run22(ctx: &mut Ctx) {
    let n = ctx.tier.pick(2_500, 150_000);
    ctx.cases(0, n, |ctx, rng, _| {
        let nf = match rng.below(6) { 0..=2 => 2, 3 | 4 => 3, _ => 4 };
        let files = gen_link_set(rng, nf, false);
        let Some(objs) = assemble_set(ctx, &files, true) else { return };
        let an: Vec<&crate::refasm::Analysis> = files.iter().map(|f| &f.a).collect();
        if ref_link(&an).is_none() { ctx.count("sets.conflicting"); return; }
        let key: String = files.iter().map(|f| f.r.text.as_str()).collect::<Vec<_>>().join("\u{0}");
        ctx.nontrivial_str(&key);
        for t in &all_trees(nf) {
            ctx.eval();
            let show = t.show();
            let case = || set_case(&files, &show);
            let Some(Ok(o)) = ctx.no_panic("ObjectFile::link", case, || eval_tree(t, &objs)) else { ctx.count("trees.link-failed"); return };
            let Some(sym) = o.symbol_table() else { ctx.violation("linked-object-without-symbol-table", "no symbol table after linking debug objects", case()); return };
            let Some(si) = sym.source_info() else { ctx.violation("linked-object-without-source", "no source info after linking debug objects", case()); return };
            let mut order = vec![]; t.leaves(&mut order);
            for (fi, f) in files.iter().enumerate() {
                let lines: Vec<&str> = f.r.text.split('\n').collect();
                let pos = order.iter().position(|x| *x == fi).unwrap();
                for (si_idx, addr) in &f.a.stmt_addr {
                    let ln = f.r.stmts[*si_idx].line;
                    let want = lines[ln].trim();
                    let got_line = sym.rev_lookup_line(*addr);
                    let got = got_line.and_then(|l| si.read_line(l));
                    if got != Some(want) {
                        ctx.violation(&format!("linked-line-text-differs:file-position-{}", pos.min(1)), format!("tree {show}: address x{addr:04X} of file {fi} maps to line {got_line:?} = {got:?}, expected {want:?}"), case()); return;
                    }
                    if got_line.and_then(|l| sym.lookup_line(l)) != Some(*addr) { ctx.violation("linked-line-lookup-not-inverse", format!("tree {show}: lookup_line(rev_lookup_line(x{addr:04X})) != x{addr:04X}"), case()); return; }
                    ctx.count("lines.checked");
                }
            }
            let names: Vec<String> = sym.label_iter().map(|(n, _, _)| n.to_string()).collect();
            for nme in names {
                match sym.get_label_source(&nme) {
                    None => { ctx.violation("linked-label-without-source", format!("tree {show}: get_label_source({nme}) = None"), case()); return; }
                    Some(sp) => {
                        let txt = si.source().get(sp.clone());
                        if !txt.is_some_and(|t| t.eq_ignore_ascii_case(&nme)) {
                            ctx.violation("linked-label-span-wrong-text", format!("tree {show}: label {nme} span {sp:?} covers {txt:?} in the combined source"), case()); return;
                        }
                        ctx.count("labels.checked");
                    }
                }
            }
            ctx.count(&format!("trees.{}-files", nf));
        }
        if ctx.want_sample() && nf == 2 && key.len() < 400 { ctx.sample(set_case(&files, "(0+1),(1+0)")); }
    });
}
fn guard22(m: &Merged, _t: Tier) -> Vec<String> {
    let mut out = vec![];
    for k in ["trees.2-files", "trees.3-files", "trees.4-files"] { need(m, &mut out, k, 100); }
    need(m, &mut out, "lines.checked", 10000); need(m, &mut out, "labels.checked", 5000);
    out
}

//! Object-file side helpers: generated object files, link sets, link trees and the reference linker.
#![allow(dead_code)]
use crate::asmutil::*;
use crate::gen::*;
use crate::refasm::{analyze, Analysis};
use crate::rng::Rng;
use lc3_ensemble::asm::encoding::{ObjFileFormat, TextFormat};
use lc3_ensemble::asm::ObjectFile;
use std::collections::{BTreeMap, BTreeSet};

pub struct GenObj { pub stmts: Vec<GStmt>, pub r: Rendered, pub a: Analysis, pub obj: ObjectFile, pub debug: bool }

/// A well-formed generated program assembled by the crate (None if the crate refuses it: other monitors flag that).
pub fn gen_object(rng: &mut Rng, opts: &GenOpts, debug: bool) -> Option<GenObj> {
    for _ in 0..8 {
        let prog = gen_program(rng, opts);
        let a = analyze(&prog.stmts);
        if a.reject { continue; }
        let style = Style::random(rng);
        let r = render(rng, &prog.stmts, &style);
        let Ok(Ok(obj)) = asm(&r.text, debug) else { return None };
        return Some(GenObj { stmts: prog.stmts, r, a, obj, debug });
    }
    None
}

// ---------------- link sets ----------------

#[derive(Clone)]
pub struct LinkFile { pub stmts: Vec<GStmt>, pub r: Rendered, pub a: Analysis }

/// 2-4 small files that share a pool of label names: externals resolved by other files, conflicting
/// definitions, labels defined at the same address in two files (touching blocks), overlapping blocks.
pub fn gen_link_set(rng: &mut Rng, nfiles: usize, hostile: bool) -> Vec<LinkFile> {
    let pool: Vec<String> = { let mut v: Vec<String> = vec![]; while v.len() < 6 { let n = gen_label_name(rng); if !v.iter().any(|m| m.eq_ignore_ascii_case(&n)) { v.push(n); } } v };
    let mut slots: Vec<u32> = (0..10).collect();
    rng.shuffle(&mut slots);
    let mut files = vec![];
    let mut slot_iter = 0usize;
    // who defines what: each pool label is defined by 0..2 files
    let mut definers: Vec<Vec<usize>> = vec![];
    for _ in &pool {
        let k = match rng.below(10) { 0 => 0, 1..=7 => 1, _ => if hostile { 2 } else { 1 } };
        let mut d: Vec<usize> = (0..nfiles).collect(); rng.shuffle(&mut d); d.truncate(k); definers.push(d);
    }
    for f in 0..nfiles {
        let nblocks = 1 + rng.usize(2);
        let mut stmts: Vec<GStmt> = vec![];
        let mut defined_here: Vec<usize> = (0..pool.len()).filter(|&i| definers[i].contains(&f)).collect();
        let mut ext_needed: BTreeSet<usize> = BTreeSet::new();
        let mut body_all: Vec<Vec<GStmt>> = vec![];
        for _ in 0..nblocks {
            // now and then a block without any statement (its labels, on the .end line, are all the file contributes there)
            let n = if rng.chance(1, 10) { 0 } else { 1 + rng.usize(6) };
            let mut body = vec![];
            for _ in 0..n {
                let k = match rng.below(8) {
                    0 | 1 => { let i = rng.usize(pool.len()); if !definers[i].contains(&f) { ext_needed.insert(i); } K::Fill(PcOp::Label(recase(rng, &pool[i]))) }
                    2 => K::Fill(PcOp::Num(rng.below(65536) as i32)),
                    3 => K::Blkw(1 + rng.below(3) as i32),
                    4 => { let ascii = !rng.chance(1, 4); K::Stringz(gen_string(rng, ascii).chars().take(4).collect()) }
                    5 => K::Add(rng.below(8) as u8, rng.below(8) as u8, Src::Imm(rng.range(-16, 15) as i32)),
                    6 => K::Halt,
                    _ => K::Not(rng.below(8) as u8, rng.below(8) as u8),
                };
                body.push(GStmt { labels: vec![], k });
            }
            body_all.push(body);
        }
        // place definitions on random statements (or on .end)
        let mut end_labels: Vec<Vec<String>> = vec![vec![]; nblocks];
        while let Some(i) = defined_here.pop() {
            let b = rng.usize(nblocks);
            if body_all[b].is_empty() || rng.chance(1, 5) { end_labels[b].push(recase(rng, &pool[i])); }
            else { let s = rng.usize(body_all[b].len()); body_all[b][s].labels.push(recase(rng, &pool[i])); }
        }
        // some private labels too
        if rng.chance(1, 2) { let b = rng.usize(nblocks); if body_all[b].is_empty() { end_labels[b].push(format!("priv{f}_{}", rng.below(100))); } else { let s = rng.usize(body_all[b].len()); body_all[b][s].labels.push(format!("priv{f}_{}", rng.below(100))); } }
        let exts: Vec<usize> = ext_needed.into_iter().collect();
        let mut ext_stmts: Vec<GStmt> = exts.iter().map(|&i| GStmt { labels: vec![], k: K::External(recase(rng, &pool[i])) }).collect();
        // an unused external declaration now and then
        if rng.chance(1, 8) { if let Some(i) = (0..pool.len()).find(|i| !definers[*i].contains(&f) && !exts.contains(i)) { ext_stmts.push(GStmt { labels: vec![], k: K::External(pool[i].clone()) }); } }
        let ext_first = rng.chance(2, 3);
        if ext_first { stmts.append(&mut ext_stmts); }
        for (b, body) in body_all.into_iter().enumerate() {
            let len: u32 = body.iter().map(|s| s.k.size()).sum();
            let slot = slots[slot_iter % slots.len()]; slot_iter += 1;
            let mut start = 0x3000 + 0x40 * slot;
            if hostile && rng.chance(1, 6) { start = 0x3000 + 0x40 * slots[rng.usize(slots.len())] + rng.below(4) as u32; } // may collide with another file
            if rng.chance(1, 5) { start = start + 0x40 - len.min(0x40); } // end exactly at the next slot: touching blocks
            if rng.chance(1, 12) { start = if rng.bool() { 0 } else { 0xFE00 - len }; }
            stmts.push(GStmt { labels: vec![], k: K::Orig(start as i32) });
            let mut body = body;
            // a block at x0000: make sure some label sits on the very first word (address 0 is also the placeholder of externals)
            if start == 0 && !body.is_empty() && body[0].labels.is_empty() { if let Some(j) = (1..body.len()).find(|j| !body[*j].labels.is_empty()) { let l = std::mem::take(&mut body[j].labels); body[0].labels = l; } }
            if !ext_first && rng.chance(1, 3) && !ext_stmts.is_empty() { let e = ext_stmts.pop().unwrap(); let p = rng.usize(body.len() + 1); body.insert(p, e); }
            stmts.extend(body);
            stmts.push(GStmt { labels: std::mem::take(&mut end_labels[b]), k: K::End });
        }
        if !ext_first { stmts.append(&mut ext_stmts); }
        let a = analyze(&stmts);
        let style = Style::random(rng);
        let r = render(rng, &stmts, &style);
        files.push(LinkFile { stmts, r, a });
    }
    files
}

#[derive(Clone, Debug, Default, PartialEq, Eq)]
pub struct LinkView { pub image: BTreeMap<u16, Option<u16>>, pub labels: BTreeMap<String, (u16, bool)>, pub pending: BTreeMap<u16, String> }

/// Reference linker over per-file analyses. None = the link must fail.
pub fn ref_link(files: &[&Analysis]) -> Option<LinkView> {
    let mut blocks: Vec<(u32, u32)> = vec![];
    for a in files { for (s, w) in &a.blocks { blocks.push((*s as u32, w.len() as u32)); } }
    for i in 0..blocks.len() { for j in i + 1..blocks.len() { let (s1, l1) = blocks[i]; let (s2, l2) = blocks[j]; if s1 < s2 + l2 && s2 < s1 + l1 { return None; } } }
    let mut defs: BTreeMap<String, BTreeSet<u16>> = BTreeMap::new();
    let mut all: BTreeSet<String> = BTreeSet::new();
    for a in files { for (n, (ad, ext)) in &a.labels { all.insert(n.clone()); if !ext { defs.entry(n.clone()).or_default().insert(*ad); } } }
    if defs.values().any(|s| s.len() > 1) { return None; }
    let mut v = LinkView::default();
    for a in files { for (k, w) in &a.image { v.image.insert(*k, *w); } }
    for n in &all { match defs.get(n) { Some(s) => { v.labels.insert(n.clone(), (*s.iter().next().unwrap(), false)); } None => { v.labels.insert(n.clone(), (0, true)); } } }
    for a in files { for (ad, n) in &a.relocs { match defs.get(n) { Some(s) => { v.image.insert(*ad, Some(*s.iter().next().unwrap())); } None => { v.pending.insert(*ad, n.clone()); } } } }
    Some(v)
}

/// Pending relocations are not public: read them from the text serialization's .LINKER_INFO table.
pub fn pending_relocs(o: &ObjectFile) -> BTreeMap<u16, String> {
    let text = TextFormat::serialize(o);
    let mut out = BTreeMap::new();
    let mut in_sec = false;
    for line in text.lines() {
        if line.starts_with('.') { in_sec = line.trim() == ".LINKER_INFO"; continue; }
        if !in_sec || line.trim().is_empty() || line.starts_with("ADDR") { continue; }
        let mut it = line.splitn(2, " | ");
        if let (Some(a), Some(l)) = (it.next(), it.next()) { if let Ok(a) = u16::from_str_radix(a.trim(), 16) { out.insert(a, l.trim().to_uppercase()); } }
    }
    out
}

pub fn view_of(o: &ObjectFile) -> LinkView {
    LinkView {
        image: image_of(o),
        labels: o.symbol_table().map(|s| s.label_iter().map(|(n, a, e)| (n.to_uppercase(), (a, e))).collect()).unwrap_or_default(),
        pending: pending_relocs(o),
    }
}

/// A link tree over file indices.
#[derive(Clone, Debug)]
pub enum Tree { Leaf(usize), Node(Box<Tree>, Box<Tree>) }
impl Tree {
    pub fn show(&self) -> String { match self { Tree::Leaf(i) => format!("{i}"), Tree::Node(a, b) => format!("({}+{})", a.show(), b.show()) } }
    pub fn leaves(&self, out: &mut Vec<usize>) { match self { Tree::Leaf(i) => out.push(*i), Tree::Node(a, b) => { a.leaves(out); b.leaves(out); } } }
}
fn bracketings(seq: &[usize]) -> Vec<Tree> {
    if seq.len() == 1 { return vec![Tree::Leaf(seq[0])]; }
    let mut out = vec![];
    for k in 1..seq.len() { for l in bracketings(&seq[..k]) { for r in bracketings(&seq[k..]) { out.push(Tree::Node(Box::new(l.clone()), Box::new(r))); } } }
    out
}
fn permutations(n: usize) -> Vec<Vec<usize>> {
    fn go(cur: &mut Vec<usize>, used: &mut Vec<bool>, n: usize, out: &mut Vec<Vec<usize>>) {
        if cur.len() == n { out.push(cur.clone()); return; }
        for i in 0..n { if !used[i] { used[i] = true; cur.push(i); go(cur, used, n, out); cur.pop(); used[i] = false; } }
    }
    let mut out = vec![]; go(&mut vec![], &mut vec![false; n], n, &mut out); out
}
/// every permutation x every bracketing (2 -> 2 trees, 3 -> 12, 4 -> 120)
pub fn all_trees(n: usize) -> Vec<Tree> { permutations(n).iter().flat_map(|p| bracketings(p)).collect() }

/// Evaluate a link tree with the crate's linker. Err(kind text) on failure.
pub fn eval_tree(t: &Tree, objs: &[ObjectFile]) -> Result<ObjectFile, String> {
    match t {
        Tree::Leaf(i) => Ok(objs[*i].clone()),
        Tree::Node(a, b) => { let l = eval_tree(a, objs)?; let r = eval_tree(b, objs)?; ObjectFile::link(l, r).map_err(|e| format!("{:?}", e.kind)) }
    }
}

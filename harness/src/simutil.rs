//! Lock-step harness: the crate's Simulator and the reference machine in the same state,
//! stepped together and compared after every step.
#![allow(dead_code)]
use crate::refsim::*;
use lc3_ensemble::ast::Reg;
use lc3_ensemble::sim::device::{BufferedDisplay, BufferedKeyboard, Interrupt, InterruptFromFn};
use lc3_ensemble::sim::mem::{MachineInitStrategy, Word};
use lc3_ensemble::sim::{InternalRegister, MemAccessCtx, SimErr, SimFlags, Simulator};
use std::collections::VecDeque;
use std::sync::{Arc, Mutex};

pub fn reg(n: usize) -> Reg { Reg::try_from(n as u8 & 7).unwrap() }

pub fn err_kind(e: &SimErr) -> &'static str {
    match e {
        SimErr::IllegalOpcode => "IllegalOpcode", SimErr::InvalidInstrFormat => "InvalidInstrFormat", SimErr::PrivilegeViolation => "PrivilegeViolation",
        SimErr::AccessViolation => "AccessViolation", SimErr::UnresolvedExternal(_) => "UnresolvedExternal", SimErr::Interrupt(_) => "Interrupt",
        SimErr::StrictRegSetUninit => "StrictRegSetUninit", SimErr::StrictMemSetUninit => "StrictMemSetUninit", SimErr::StrictIOSetUninit => "StrictIOSetUninit",
        SimErr::StrictJmpAddrUninit => "StrictJmpAddrUninit", SimErr::StrictSRAddrUninit => "StrictSRAddrUninit", SimErr::StrictMemAddrUninit => "StrictMemAddrUninit",
        SimErr::StrictPCCurrUninit => "StrictPCCurrUninit", SimErr::StrictPCNextUninit => "StrictPCNextUninit", SimErr::StrictPSRSetUninit => "StrictPSRSetUninit",
    }
}
pub fn is_strict_err(e: &SimErr) -> bool { err_kind(e).starts_with("Strict") }
pub fn rerr_name(e: RErr) -> &'static str { match e { RErr::IllegalOpcode => "IllegalOpcode", RErr::InvalidInstrFormat => "InvalidInstrFormat", RErr::PrivilegeViolation => "PrivilegeViolation", RErr::AccessViolation => "AccessViolation" } }

pub const SP_PORT: u16 = 0xFFF0;
pub fn priv_ctx() -> MemAccessCtx { MemAccessCtx { privileged: true, strict: false, io_effects: true, track_access: false } }

pub type IrqCell = Arc<Mutex<Option<(u8, u8)>>>;

pub struct Pair {
    pub sim: Simulator,
    pub r: RefSim,
    pub kb: Option<BufferedKeyboard>,
    pub ds: Option<BufferedDisplay>,
    pub irq: IrqCell,
    pub steps: u64,
}

#[derive(Clone, Debug)]
pub struct Mismatch { pub component: String, pub detail: String }

impl Pair {
    /// Fresh simulator + reference with identical state. Memory outside the OS image is `fill` and initialized.
    pub fn new(real_traps: bool, ignore_privilege: bool, debug_frames: bool, fill: u16, kbd: Option<&[u8]>, display: bool) -> Pair {
        let flags = SimFlags { strict: false, use_real_traps: real_traps, machine_init: MachineInitStrategy::Known { value: fill }, debug_frames, ignore_privilege };
        let mut sim = Simulator::new(flags);
        let mut r = RefSim::new();
        r.real_traps = real_traps; r.ignore_privilege = ignore_privilege; r.debug_frames = debug_frames;
        // adopt the machine's initial memory image (the OS image itself is checked by C29)
        for a in 0..=0xFFFFu16 { let v = sim.mem[a].get(); sim.mem[a] = Word::new_init(v); r.mem[a as usize] = v; }
        for i in 0..8 { sim.reg_file[reg(i)].set(fill); r.reg[i] = fill; }
        sim.mmap_internal(SP_PORT, InternalRegister::SavedSP).expect("map saved sp");
        r.ireg.insert(SP_PORT, IReg::SavedSP);
        let kb = kbd.map(|bytes| { let k = BufferedKeyboard::default(); k.get_buffer().write().unwrap().extend(bytes.iter().copied()); sim.device_handler.set_keyboard(k.clone()); r.kbd = Some(bytes.iter().copied().collect()); k });
        let ds = display.then(|| { let d = BufferedDisplay::default(); sim.device_handler.set_display(d.clone()); r.display = Some(vec![]); d });
        let irq: IrqCell = Arc::new(Mutex::new(None));
        let cell = irq.clone();
        sim.device_handler.add_device(InterruptFromFn::new(move || cell.lock().unwrap().take().map(|(v, p)| Interrupt::vectored(v, p))), &[]).expect("add irq device");
        Pair { sim, r, kb, ds, irq, steps: 0 }
    }
    /// Assemble `text` with the crate, load it into the simulator and mirror the image into the reference.
    /// Returns upper-cased label -> address.
    pub fn load_text(&mut self, text: &str) -> Result<std::collections::BTreeMap<String, u16>, String> {
        let ast = lc3_ensemble::parse::parse_ast(text).map_err(|e| format!("parse: {e:?}"))?;
        let obj = lc3_ensemble::asm::assemble_debug(ast, text).map_err(|e| format!("assemble: {:?}", e.kind))?;
        self.sim.load_obj_file(&obj).map_err(|e| format!("load: {e:?}"))?;
        for (a, w) in obj.addr_iter() {
            match w { Some(v) => self.r.mem[a as usize] = v, None => { let v = self.sim.mem[a].get(); self.sim.mem[a] = Word::new_init(v); } }
        }
        Ok(obj.symbol_table().map(|s| s.label_iter().map(|(n, a, _)| (n.to_uppercase(), a)).collect()).unwrap_or_default())
    }
    pub fn set_mem(&mut self, a: u16, v: u16) { self.sim.mem[a] = Word::new_init(v); self.r.mem[a as usize] = v; }
    pub fn set_reg(&mut self, i: usize, v: u16) { self.sim.reg_file[reg(i)].set(v); self.r.reg[i] = v; }
    pub fn set_pc(&mut self, v: u16) { self.sim.pc = v; self.r.pc = v; }
    /// through the PSR port (masked, CC normalized)
    pub fn set_psr(&mut self, v: u16) {
        self.sim.write_mem(PSR_ADDR, Word::new_init(v), priv_ctx()).expect("psr port");
        self.r.psr_store(v); self.r.mem[PSR_ADDR as usize] = v;
    }
    pub fn set_saved_sp(&mut self, v: u16) {
        self.sim.write_mem(SP_PORT, Word::new_init(v), priv_ctx()).expect("sp port");
        self.r.saved_sp = v; self.r.mem[SP_PORT as usize] = v;
    }
    pub fn set_kbd_ie(&mut self, on: bool) {
        if self.kb.is_some() { let v = (on as u16) << 14; self.sim.write_mem(KBSR, Word::new_init(v), priv_ctx()).expect("kbsr"); self.r.kbd_ie = on; self.r.mem[KBSR as usize] = v; }
    }
    pub fn saved_sp_of_sim(&mut self) -> u16 {
        let v = self.sim.read_mem(SP_PORT, MemAccessCtx::omnipotent()).map(|w| w.get()).unwrap_or(0);
        self.r.mem[SP_PORT as usize] = self.r.saved_sp; // the same peek refreshes the reference's mirror
        v
    }

    /// One step of both machines. Returns the crate's result and the reference outcome.
    pub fn step(&mut self, pending: Option<(u8, u8)>) -> (Result<(), SimErr>, Outcome) {
        *self.irq.lock().unwrap() = pending;
        self.r.acc.clear();
        let got = self.sim.step_in();
        *self.irq.lock().unwrap() = None;
        let exp = self.r.step(pending);
        self.steps += 1;
        // adopt-not-assert: condition codes right after an entry; pushed PC of an exception under real traps
        if matches!(self.r.last_kind, StepKind::InterruptEntry | StepKind::ExceptionEntry | StepKind::TrapEntry) && exp == Outcome::Ok {
            let cc = self.sim.psr().get() & 7;
            self.r.psr = (self.r.psr & !7) | cc;
            if self.r.last_kind == StepKind::ExceptionEntry { if let Some(a) = self.r.last_pushed_pc_addr { if a < 0xFE00 { self.r.mem[a as usize] = self.sim.mem[a].get(); } } }
        }
        (got, exp)
    }

    /// Compare the two machines after a step. `full_mem`: compare all 64K words, otherwise only touched addresses.
    pub fn compare(&mut self, got: &Result<(), SimErr>, exp: Outcome, full_mem: bool) -> Option<Mismatch> {
        let mm = |c: &str, d: String| Some(Mismatch { component: c.to_string(), detail: d });
        match (got, exp) {
            (Ok(()), Outcome::Ok) | (Ok(()), Outcome::Halt) => {}
            (Err(e), Outcome::Err(x)) if err_kind(e) == rerr_name(x) => {}
            (g, x) => return mm("result", format!("step returned {:?}, reference {:?}", g.as_ref().map_err(err_kind), x)),
        }
        if self.sim.pc != self.r.pc { return mm("pc", format!("PC x{:04X}, reference x{:04X}", self.sim.pc, self.r.pc)); }
        for i in 0..8 { let v = self.sim.reg_file[reg(i)].get(); if v != self.r.reg[i] { return mm("reg", format!("R{i} = x{v:04X}, reference x{:04X}", self.r.reg[i])); } }
        let p = self.sim.psr().get();
        if p != self.r.psr {
            let c = if p & 0x8000 != self.r.psr & 0x8000 { "psr.privilege" } else if p & 0x0700 != self.r.psr & 0x0700 { "psr.priority" } else if p & 7 != self.r.psr & 7 { "psr.cc" } else { "psr.other-bits" };
            return mm(c, format!("PSR x{p:04X}, reference x{:04X}", self.r.psr));
        }
        let sp = self.saved_sp_of_sim();
        if sp != self.r.saved_sp { return mm("saved_sp", format!("saved SP x{sp:04X}, reference x{:04X}", self.r.saved_sp)); }
        if self.sim.instructions_run != self.r.instructions_run { return mm("instructions_run", format!("{} vs reference {}", self.sim.instructions_run, self.r.instructions_run)); }
        if self.sim.frame_stack.len() != self.r.frame_no { return mm("frame_depth", format!("{} vs reference {}", self.sim.frame_stack.len(), self.r.frame_no)); }
        if got.is_err() || exp == Outcome::Halt {
            let g = crate::monitor::guard(|| self.sim.prefetch_pc());
            match g { Ok(v) if v == self.r.prefetch_pc() => {}, Ok(v) => return mm("prefetch_pc", format!("prefetch_pc() = x{v:04X}, reference x{:04X}", self.r.prefetch_pc())), Err(p) => return mm("prefetch_pc-panics", p.msg) }
        }
        if let (Some(d), Some(rd)) = (&self.ds, &self.r.display) { let b = d.get_buffer().read().unwrap(); if *b != *rd { return mm("display", format!("display {:?}, reference {:?}", String::from_utf8_lossy(&b), String::from_utf8_lossy(rd))); } }
        if let (Some(k), Some(rk)) = (&self.kb, &self.r.kbd) { let b = k.get_buffer().read().unwrap(); if !b.iter().eq(rk.iter()) { return mm("keyboard", format!("keyboard queue {:?}, reference {:?}", b, rk)); } }
        if self.r.kbd.is_some() { /* interrupt enable is visible through KBSR reads */ }
        if full_mem {
            for a in 0..=0xFFFFu16 { let v = self.sim.mem[a].get(); if v != self.r.mem[a as usize] { return mm(if a >= 0xFE00 { "mem.io-mirror" } else { "mem" }, format!("mem[x{a:04X}] = x{v:04X}, reference x{:04X}", self.r.mem[a as usize])); } }
        } else {
            let mut touched: Vec<u16> = self.r.acc.keys().copied().collect();
            touched.extend(self.sim.observer.take_mem_accesses().map(|(a, _)| a));
            for a in touched { let v = self.sim.mem[a].get(); if v != self.r.mem[a as usize] { return mm(if a >= 0xFE00 { "mem.io-mirror" } else { "mem" }, format!("mem[x{a:04X}] = x{v:04X}, reference x{:04X}", self.r.mem[a as usize])); } }
        }
        None
    }
}

/// words biased toward valid encodings with fields at their extremes
pub fn biased_word(rng: &mut crate::rng::Rng) -> u16 {
    use crate::refasm::LAYOUTS;
    if rng.chance(1, 6) { return rng.u16(); }
    let l = &LAYOUTS[rng.usize(LAYOUTS.len())];
    let (_, mut w) = l.mask_bits();
    for ch in ['c', 'd', 's', 't', 'i', 'o', 'v'] {
        if let Some(f) = l.field(ch) {
            let max = (1u32 << f.width) - 1;
            let v = match rng.below(6) { 0 => 0, 1 => max, 2 => max >> 1, 3 => (max >> 1) + 1, 4 => 1, _ => rng.below(max as u64 + 1) as u32 };
            l.put(&mut w, ch, v as i32);
        }
    }
    // near misses: a valid encoding with one of its fixed (must-be-zero / must-be-one) bits flipped
    if rng.chance(1, 6) { let (mask, _) = l.mask_bits(); let fixed: Vec<u32> = (0..12).filter(|b| mask >> b & 1 == 1).collect(); if !fixed.is_empty() { w ^= 1 << *rng.pick(&fixed); } }
    w
}

pub fn boundary_addr(rng: &mut crate::rng::Rng) -> u16 {
    const B: [u16; 24] = [0x0000, 0x0001, 0x00FF, 0x0100, 0x01FF, 0x0200, 0x2FFE, 0x2FFF, 0x3000, 0x3001, 0x7FFF, 0x8000, 0xFDFE, 0xFDFF, 0xFE00, 0xFE02, 0xFE04, 0xFE06, 0xFFF0, 0xFFFC, 0xFFFE, 0xFFFF, 0x4000, 0xC000];
    if rng.chance(2, 3) { *rng.pick(&B) } else { rng.u16() }
}

/// A device that records every call made to it (C09, C30, C32).
#[derive(Clone, Default, Debug)]
pub struct Recorder { pub log: Arc<Mutex<Vec<(char, u16, u16)>>>, pub answer: u16, pub tag: u16 }
impl Recorder {
    pub fn new(tag: u16) -> Recorder { Recorder { log: Arc::new(Mutex::new(vec![])), answer: 0x1200 | tag, tag } }
    pub fn take(&self) -> Vec<(char, u16, u16)> { std::mem::take(&mut *self.log.lock().unwrap()) }
    pub fn len(&self) -> usize { self.log.lock().unwrap().len() }
}
impl lc3_ensemble::sim::device::ExternalDevice for Recorder {
    fn io_read(&mut self, addr: u16, effectful: bool) -> Option<u16> { self.log.lock().unwrap().push((if effectful { 'R' } else { 'r' }, addr, 0)); Some(self.answer) }
    fn io_write(&mut self, addr: u16, data: u16) -> bool { self.log.lock().unwrap().push(('W', addr, data)); true }
    fn io_reset(&mut self) { self.log.lock().unwrap().push(('X', 0, 0)); }
    fn poll_interrupt(&mut self) -> Option<Interrupt> { None }
}

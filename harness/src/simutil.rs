//! simulator helpers

//! reference machine

//! Reference LC-3 machine (non-strict semantics), written from the ISA (Patt & Patel 3rd ed.:
//! TRAP/RTI on the supervisor stack, interrupts, exceptions, ACV) and from the crate's documentation
//! for what the ISA leaves to the simulator (virtual traps, MMIO devices, frames, access observer).
//! It is a flat-array machine and shares no code with the crate.
#![allow(dead_code)]
use crate::refasm::{decode_ref, DecErr, RI, RO};
use std::collections::{BTreeMap, HashMap, VecDeque};

#[derive(Clone, Copy, Debug, PartialEq, Eq)]
pub enum RErr { IllegalOpcode, InvalidInstrFormat, PrivilegeViolation, AccessViolation }
#[derive(Clone, Copy, Debug, PartialEq, Eq)]
pub enum Outcome { Ok, Halt, Err(RErr) }

#[derive(Clone, Copy, Debug, PartialEq, Eq)]
pub enum IReg { PC, PSR, MCR, SavedSP }
#[derive(Clone, Copy, Debug, PartialEq, Eq)]
pub enum FType { Subroutine, Trap, Interrupt }
#[derive(Clone, Debug, PartialEq, Eq)]
pub struct RFrame { pub caller: u16, pub callee: u16, pub ftype: FType, pub frame_ptr: Option<u16>, pub args: Vec<u16> }
#[derive(Clone, Debug, PartialEq, Eq)]
pub enum Sig { CallingConvention(usize), PassByRegister(Vec<u8>) }

pub const READ: u8 = 1;
pub const WRITTEN: u8 = 2;
pub const MODIFIED: u8 = 4;

pub const KBSR: u16 = 0xFE00;
pub const KBDR: u16 = 0xFE02;
pub const DSR: u16 = 0xFE04;
pub const DDR: u16 = 0xFE06;
pub const PSR_ADDR: u16 = 0xFFFC;
pub const MCR_ADDR: u16 = 0xFFFE;

/// What kind of step was taken (for coverage accounting and the adopt-not-assert rules).
#[derive(Clone, Copy, Debug, PartialEq, Eq)]
pub enum StepKind { Instr, InterruptEntry, GatedInterrupt, ExceptionEntry, TrapEntry }

#[derive(Clone)]
pub struct RefSim {
    pub mem: Vec<u16>,
    pub reg: [u16; 8],
    pub pc: u16,
    pub psr: u16,
    pub saved_sp: u16,
    pub prefetch: bool,
    pub instructions_run: u64,
    pub frame_no: u64,
    pub frames: Vec<RFrame>,
    pub real_traps: bool,
    pub ignore_privilege: bool,
    pub debug_frames: bool,
    pub kbd: Option<VecDeque<u8>>,
    pub kbd_ie: bool,
    pub display: Option<Vec<u8>>,
    pub ireg: HashMap<u16, IReg>,
    pub mcr: bool,
    pub acc: BTreeMap<u16, u8>,
    pub sr_sigs: HashMap<u16, Sig>,
    /// filled by step(): what happened
    pub last_kind: StepKind,
    /// address of the stack slot that received the pushed PC in the last entry (for adoption)
    pub last_pushed_pc_addr: Option<u16>,
    /// an interrupt request was presented at the last boundary but its priority did not exceed the current one
    pub last_gated: bool,
}

fn user(a: u16) -> bool { (0x3000..0xFE00).contains(&a) }

impl RefSim {
    pub fn new() -> RefSim {
        RefSim {
            mem: vec![0; 65536], reg: [0; 8], pc: 0x3000, psr: 0x8002, saved_sp: 0x3000, prefetch: false, instructions_run: 0,
            frame_no: 0, frames: vec![], real_traps: false, ignore_privilege: false, debug_frames: false,
            kbd: None, kbd_ie: false, display: None,
            ireg: HashMap::from([(PSR_ADDR, IReg::PSR), (MCR_ADDR, IReg::MCR)]), mcr: false, acc: BTreeMap::new(), sr_sigs: HashMap::new(),
            last_kind: StepKind::Instr, last_pushed_pc_addr: None, last_gated: false,
        }
    }
    pub fn privileged(&self) -> bool { self.psr >> 15 == 0 }
    pub fn priority(&self) -> u8 { ((self.psr >> 8) & 7) as u8 }
    pub fn cc(&self) -> u8 { (self.psr & 7) as u8 }
    fn ctx_priv(&self) -> bool { self.privileged() || self.ignore_privilege }
    pub fn set_cc_bits(&mut self, cc: u8) {
        let mut cc = cc & 7;
        if cc.count_ones() != 1 { cc = 0b010; }
        self.psr = (self.psr & 0xFFF8) | cc as u16;
    }
    fn set_cc(&mut self, v: u16) { self.set_cc_bits(if (v as i16) < 0 { 4 } else if v == 0 { 2 } else { 1 }); }
    /// what a store to the PSR port does
    pub fn psr_store(&mut self, v: u16) { self.psr = v & 0x8707; self.set_cc_bits((v & 7) as u8); }
    pub fn prefetch_pc(&self) -> u16 { self.pc.wrapping_sub(if self.prefetch { 0 } else { 1 }) }

    fn ireg_read(&self, r: IReg) -> u16 { match r { IReg::PC => self.pc, IReg::PSR => self.psr, IReg::MCR => (self.mcr as u16) << 15, IReg::SavedSP => self.saved_sp } }
    fn ireg_write(&mut self, r: IReg, v: u16) { match r { IReg::PC => self.pc = v, IReg::PSR => self.psr_store(v), IReg::MCR => self.mcr = v >> 15 == 1, IReg::SavedSP => self.saved_sp = v } }

    fn dev_read(&mut self, a: u16, effects: bool) -> Option<u16> {
        match a {
            KBSR => self.kbd.as_ref().map(|q| ((!q.is_empty()) as u16) << 15 | (self.kbd_ie as u16) << 14),
            KBDR => { let q = self.kbd.as_mut()?; if effects { q.pop_front().map(|b| b as u16) } else { q.front().map(|b| *b as u16) } }
            DSR => self.display.as_ref().map(|_| 0x8000),
            _ => None,
        }
    }
    fn dev_write(&mut self, a: u16, v: u16) -> bool {
        match a {
            KBSR if self.kbd.is_some() => { self.kbd_ie = (v >> 14) & 1 == 1; true }
            DDR => match self.display.as_mut() { Some(d) => { d.push(v as u8); true } None => false },
            _ => false,
        }
    }

    /// Memory read as the machine performs it (privilege check, MMIO, access tracking).
    pub fn read(&mut self, a: u16, privileged: bool, effects: bool, track: bool) -> Result<u16, RErr> {
        if !privileged && !user(a) { return Err(RErr::AccessViolation); }
        if a >= 0xFE00 {
            if let Some(r) = self.ireg.get(&a).copied() { self.mem[a as usize] = self.ireg_read(r); }
            else if let Some(v) = self.dev_read(a, effects) { self.mem[a as usize] = v; }
        }
        if track { *self.acc.entry(a).or_insert(0) |= READ; }
        Ok(self.mem[a as usize])
    }
    pub fn write(&mut self, a: u16, v: u16, privileged: bool, track: bool) -> Result<(), RErr> {
        if !privileged && !user(a) { return Err(RErr::AccessViolation); }
        let ok = if a >= 0xFE00 {
            if let Some(r) = self.ireg.get(&a).copied() { self.ireg_write(r, v); true } else { self.dev_write(a, v) }
        } else { true };
        if ok {
            if track { let e = self.acc.entry(a).or_insert(0); *e |= WRITTEN; if self.mem[a as usize] != v { *e |= MODIFIED; } }
            self.mem[a as usize] = v;
        }
        Ok(())
    }
    fn rd(&mut self, a: u16) -> Result<u16, RErr> { let p = self.ctx_priv(); self.read(a, p, true, true) }
    fn wr(&mut self, a: u16, v: u16) -> Result<(), RErr> { let p = self.ctx_priv(); self.write(a, v, p, true) }

    fn push_frame(&mut self, caller: u16, callee: u16, ftype: FType) {
        self.frame_no += 1;
        if self.debug_frames {
            let sig = match ftype {
                FType::Subroutine | FType::Interrupt => self.sr_sigs.get(&callee).cloned(),
                FType::Trap => match callee { 0x20 | 0x23 | 0x25 => Some(Sig::PassByRegister(vec![])), 0x21 | 0x22 | 0x24 => Some(Sig::PassByRegister(vec![0])), _ => None },
            };
            let (fp, args) = match sig {
                Some(Sig::CallingConvention(n)) => { let fp = self.reg[6].wrapping_sub(4); (Some(fp), (0..n).map(|i| self.mem[fp.wrapping_add(4).wrapping_add(i as u16) as usize]).collect()) }
                Some(Sig::PassByRegister(rs)) => (None, rs.iter().map(|r| self.reg[*r as usize]).collect()),
                None => (None, vec![]),
            };
            self.frames.push(RFrame { caller, callee, ftype, frame_ptr: fp, args });
        }
    }
    fn pop_frame(&mut self) { self.frame_no = self.frame_no.saturating_sub(1); if self.debug_frames { self.frames.pop(); } }

    /// Trap / interrupt / exception entry. `vect` is the table address (x00-xFF traps, x100-x1FF interrupts and exceptions).
    fn enter(&mut self, vect: u16, prio: Option<u8>) -> Outcome {
        if let Some(p) = prio { if p <= self.priority() { self.last_kind = StepKind::GatedInterrupt; return Outcome::Ok; } }
        if !self.real_traps && matches!(vect, 0x25 | 0x100 | 0x101 | 0x102) {
            if !self.prefetch { self.pc = self.pc.wrapping_sub(1); self.prefetch = true; }
            return match vect { 0x25 => Outcome::Halt, 0x100 => Outcome::Err(RErr::PrivilegeViolation), 0x101 => Outcome::Err(RErr::IllegalOpcode), _ => Outcome::Err(RErr::AccessViolation) };
        }
        if !self.privileged() { std::mem::swap(&mut self.saved_sp, &mut self.reg[6]); }
        let (old_psr, old_pc) = (self.psr, self.pc);
        self.psr &= 0x7FFF;
        let sp = self.reg[6];
        self.reg[6] = sp.wrapping_sub(2);
        // supervisor-mode stores cannot raise ACV
        let _ = self.write(sp.wrapping_sub(1), old_psr, true, true);
        let _ = self.write(sp.wrapping_sub(2), old_pc, true, true);
        self.last_pushed_pc_addr = Some(sp.wrapping_sub(2));
        self.set_cc_bits(0b010); // not fixed by the ISA: adopted from the implementation by the comparison harness
        if let Some(p) = prio { self.psr = (self.psr & 0xF8FF) | ((p as u16 & 7) << 8); }
        // the vector is fetched with the privilege in force after the pushes (a supervisor stack placed over
        // the PSR port can drop the privilege again: then this is an access violation like any other)
        let p = self.ctx_priv();
        let t = match self.read(vect, p, true, true) { Ok(t) => t, Err(e) => return Outcome::Err(e) };
        let ft = if prio.is_some() { FType::Interrupt } else { FType::Trap };
        let caller = self.prefetch_pc();
        self.push_frame(caller, vect, ft);
        self.pc = t;
        Outcome::Ok
    }

    fn exec(&mut self) -> Result<Outcome, RErr> {
        let w = self.rd(self.pc)?;
        let i = match decode_ref(w) { Ok(i) => i, Err(DecErr::IllegalOpcode) => return Err(RErr::IllegalOpcode), Err(DecErr::InvalidFormat) => return Err(RErr::InvalidInstrFormat) };
        self.pc = self.pc.wrapping_add(1);
        self.prefetch = false;
        let pcoff = |s: &RefSim, o: i16| s.pc.wrapping_add(o as u16);
        match i {
            RI::Br(c, o) => { if c & self.cc() != 0 { self.pc = pcoff(self, o); } }
            RI::Add(d, s, x) => { let b = match x { RO::Reg(r) => self.reg[r as usize], RO::Imm(v) => v as u16 }; let r = self.reg[s as usize].wrapping_add(b); self.reg[d as usize] = r; self.set_cc(r); }
            RI::And(d, s, x) => { let b = match x { RO::Reg(r) => self.reg[r as usize], RO::Imm(v) => v as u16 }; let r = self.reg[s as usize] & b; self.reg[d as usize] = r; self.set_cc(r); }
            RI::Not(d, s) => { let r = !self.reg[s as usize]; self.reg[d as usize] = r; self.set_cc(r); }
            RI::Ld(d, o) => { let v = self.rd(pcoff(self, o))?; self.reg[d as usize] = v; self.set_cc(v); }
            RI::Ldi(d, o) => { let a = self.rd(pcoff(self, o))?; let v = self.rd(a)?; self.reg[d as usize] = v; self.set_cc(v); }
            RI::Ldr(d, b, o) => { let a = self.reg[b as usize].wrapping_add(o as u16); let v = self.rd(a)?; self.reg[d as usize] = v; self.set_cc(v); }
            RI::Lea(d, o) => { self.reg[d as usize] = pcoff(self, o); }
            RI::St(s, o) => { let v = self.reg[s as usize]; self.wr(pcoff(self, o), v)?; }
            RI::Sti(s, o) => { let a = self.rd(pcoff(self, o))?; let v = self.reg[s as usize]; self.wr(a, v)?; }
            RI::Str(s, b, o) => { let a = self.reg[b as usize].wrapping_add(o as u16); let v = self.reg[s as usize]; self.wr(a, v)?; }
            RI::Jmp(b) => { self.pc = self.reg[b as usize]; if b == 7 { self.pop_frame(); } }
            RI::Jsr(o) => { let t = pcoff(self, o); self.reg[7] = self.pc; let c = self.prefetch_pc(); self.push_frame(c, t, FType::Subroutine); self.pc = t; }
            RI::Jsrr(b) => { let t = self.reg[b as usize]; self.reg[7] = self.pc; let c = self.prefetch_pc(); self.push_frame(c, t, FType::Subroutine); self.pc = t; }
            RI::Rti => {
                if !self.ctx_priv() { return Err(RErr::PrivilegeViolation); }
                let sp = self.reg[6];
                let pc = self.read(sp, true, true, true)?;
                let psr = self.read(sp.wrapping_add(1), true, true, true)?;
                self.reg[6] = sp.wrapping_add(2);
                self.pc = pc;
                self.psr = psr;
                if !self.privileged() { std::mem::swap(&mut self.saved_sp, &mut self.reg[6]); }
                self.pop_frame();
            }
            RI::Trap(v) => {
                self.last_kind = StepKind::TrapEntry;
                match self.enter(v as u16, None) { Outcome::Ok => {}, other => return Ok(other) }
            }
        }
        self.instructions_run = self.instructions_run.wrapping_add(1);
        Ok(Outcome::Ok)
    }

    /// One machine step. `pending`: the vectored interrupt (vector, priority) the devices present at this
    /// boundary, already arbitrated by the caller except for the keyboard, which is added here.
    pub fn step(&mut self, pending: Option<(u8, u8)>) -> Outcome {
        self.prefetch = true;
        self.last_kind = StepKind::Instr;
        self.last_pushed_pc_addr = None;
        self.last_gated = false;
        let kb = match &self.kbd { Some(q) if self.kbd_ie && !q.is_empty() => Some((0x80u8, 4u8)), _ => None };
        // highest priority wins (callers never present two requests of equal priority)
        let req = match (kb, pending) { (Some(a), Some(b)) => Some(if b.1 >= a.1 { b } else { a }), (a, b) => a.or(b) };
        let mut taken = false;
        let mut r = Outcome::Ok;
        if let Some((v, p)) = req {
            if p > self.priority() { self.last_kind = StepKind::InterruptEntry; taken = true; r = self.enter(0x100 + v as u16, Some(p)); } else { self.last_gated = true; }
        }
        if !taken { r = match self.exec() { Ok(o) => o, Err(e) => Outcome::Err(e) }; }
        if self.real_traps {
            let v = match r { Outcome::Halt => Some(0x25), Outcome::Err(RErr::PrivilegeViolation) => Some(0x100), Outcome::Err(RErr::IllegalOpcode) | Outcome::Err(RErr::InvalidInstrFormat) => Some(0x101), Outcome::Err(RErr::AccessViolation) => Some(0x102), Outcome::Ok => None };
            if let Some(v) = v { self.last_kind = StepKind::ExceptionEntry; return self.enter(v, None); }
        }
        r
    }

    /// Mnemonic of the instruction at PC (for signatures/coverage), without side effects.
    pub fn class_at_pc(&self) -> &'static str {
        match decode_ref(self.mem[self.pc as usize]) { Ok(i) => crate::refasm::ri_name(&i), Err(DecErr::IllegalOpcode) => "RESERVED", Err(DecErr::InvalidFormat) => "BADFORMAT" }
    }
}

//! Structured, terminating user-program generator (subroutines, loops, stack use, data area, I/O traps,
//! optional fault endings) and interrupt-service-routine generator.
#![allow(dead_code)]
use crate::gen::*;
use crate::rng::Rng;

#[derive(Clone, Copy, Debug, PartialEq, Eq)]
pub enum Ending { Halt, AcvLoad, AcvStore, AcvJump, PrivRti, IllegalOpcode, BadFormat }
impl Ending {
    pub fn name(self) -> &'static str { match self { Ending::Halt => "halt", Ending::AcvLoad => "acv-load", Ending::AcvStore => "acv-store", Ending::AcvJump => "acv-jump", Ending::PrivRti => "privilege-rti", Ending::IllegalOpcode => "illegal-opcode", Ending::BadFormat => "bad-format" } }
}

#[derive(Clone, Debug)]
pub struct ProgOpts { pub io: bool, pub input: bool, pub faults: bool, pub calls: bool, pub max_blocks: usize, pub unbalanced: bool,
    /// every register the program reads is written first and the buffer is initialized data (no strict-mode errors of the program's own making)
    pub strict_clean: bool,
    /// the program never touches R6 (no stack set-up, no push/pop, only leaf subroutines)
    pub no_stack: bool }
impl Default for ProgOpts { fn default() -> Self { ProgOpts { io: true, input: true, faults: false, calls: true, max_blocks: 8, unbalanced: false, strict_clean: false, no_stack: false } } }

#[derive(Clone, Debug)]
pub struct UserProg {
    pub stmts: Vec<GStmt>,
    pub text: String,
    /// bytes of keyboard input the program consumes (GETC/IN executions)
    pub kbd_needed: usize,
    pub ending: Ending,
    /// labels of subroutines (for frame signatures)
    pub subs: Vec<String>,
    pub uses: Vec<&'static str>,
}

fn s(k: K) -> GStmt { GStmt { labels: vec![], k } }
fn ls(l: &str, k: K) -> GStmt { GStmt { labels: vec![l.to_string()], k } }
fn lab(l: &str) -> PcOp { PcOp::Label(l.to_string()) }

struct B<'a> { rng: &'a mut Rng, out: Vec<GStmt>, n_label: usize, uses: Vec<&'static str>, kbd: usize, opts: ProgOpts, nsubs: usize }

impl<'a> B<'a> {
    fn fresh(&mut self, stem: &str) -> String { self.n_label += 1; format!("{stem}{}", self.n_label) }
    fn used(&mut self, u: &'static str) { if !self.uses.contains(&u) { self.uses.push(u); } }
    fn gr(&mut self) -> u8 { self.rng.below(4) as u8 } // R0-R3 general purpose
    fn alu(&mut self) {
        let n = 1 + self.rng.usize(4);
        for _ in 0..n {
            let (d, a, b) = (self.gr(), self.gr(), self.gr());
            let k = match self.rng.below(5) { 0 => K::Add(d, a, Src::Reg(b)), 1 => K::Add(d, a, Src::Imm(self.rng.range(-16, 15) as i32)), 2 => K::And(d, a, Src::Reg(b)), 3 => K::And(d, a, Src::Imm(self.rng.range(-16, 15) as i32)), _ => K::Not(d, a) };
            self.out.push(s(k));
        }
        self.used("alu");
    }
    fn mem(&mut self) {
        let (d, p) = (self.gr(), 1 + self.rng.below(3) as u8);
        match self.rng.below(6) {
            0 => { self.out.push(s(K::Ld(d, lab("VAL1")))); self.used("LD"); }
            1 => { self.out.push(s(K::St(d, lab("VAL2")))); self.used("ST"); }
            2 => { self.out.push(s(K::Ldi(d, lab("PTR")))); self.used("LDI"); }
            3 => { self.out.push(s(K::Sti(d, lab("PTR")))); self.used("STI"); }
            4 => { let k = self.rng.below(8) as i32; self.out.push(s(K::Lea(p, lab("BUF")))); self.out.push(s(K::Str(d, p, k))); let d2 = self.gr(); self.out.push(s(K::Ldr(d2, p, k))); self.used("LEA/STR/LDR"); }
            _ if self.opts.no_stack => self.alu(),
            _ => { // push/pop on the user stack
                self.out.push(s(K::Add(6, 6, Src::Imm(-1)))); self.out.push(s(K::Str(d, 6, 0))); self.alu(); self.out.push(s(K::Ldr(d, 6, 0))); self.out.push(s(K::Add(6, 6, Src::Imm(1)))); self.used("stack-push-pop");
            }
        }
    }
    fn output(&mut self) {
        match self.rng.below(5) {
            0 | 1 => { let c = 0x21 + self.rng.below(0x5d) as i32; self.out.push(s(K::And(0, 0, Src::Imm(0)))); // R0 = c via repeated adds
                let mut rem = c; while rem > 0 { let a = rem.min(15); self.out.push(s(K::Add(0, 0, Src::Imm(a)))); rem -= a; }
                self.out.push(s(if self.rng.bool() { K::Out } else { K::Putc })); self.used("OUT"); }
            2 | 3 => { let l = format!("STR{}", 1 + self.rng.below(2)); self.out.push(s(K::Lea(0, lab(&l)))); self.out.push(s(K::Puts)); self.used("PUTS"); }
            _ => { self.out.push(s(K::Lea(0, lab("PSTR")))); self.out.push(s(K::Putsp)); self.used("PUTSP"); }
        }
    }
    fn input(&mut self) {
        self.out.push(s(if self.rng.bool() { K::Getc } else { K::In })); self.kbd += 1; self.used("GETC/IN");
        if self.rng.bool() { self.out.push(s(K::Out)); }
    }
    fn call(&mut self) {
        if self.nsubs == 0 { return; }
        let k = 1 + self.rng.usize(self.nsubs);
        if self.rng.bool() { self.out.push(s(K::Jsr(lab(&format!("SUB{k}"))))); self.used("JSR"); }
        else { self.out.push(s(K::Lea(3, lab(&format!("SUB{k}"))))); self.out.push(s(K::Jsrr(3))); self.used("JSRR"); }
    }
    fn unbalanced(&mut self) {
        let l = self.fresh("UB");
        self.out.push(s(K::Lea(7, lab(&l))));
        self.out.push(s(if self.rng.bool() { K::Ret } else { K::Jmp(7) }));
        self.out.push(ls(&l, K::Nop(None)));
        self.used("unbalanced-return");
    }
    fn block(&mut self, depth: usize, in_loop: bool) {
        match self.rng.below(10) {
            0 | 1 => self.alu(),
            2 | 3 => self.mem(),
            4 if self.opts.io => self.output(),
            5 if self.opts.io && self.opts.input && !in_loop && depth == 0 => self.input(),
            6 if self.opts.calls => self.call(),
            7 if depth < 2 => { // counted loop with R4/R5 as counter
                let ctr = 4 + depth as u8;
                let n = 1 + self.rng.below(4) as i32;
                let l = self.fresh("LOOP");
                self.out.push(s(K::And(ctr, ctr, Src::Imm(0)))); self.out.push(s(K::Add(ctr, ctr, Src::Imm(n))));
                let start = self.out.len();
                let nb = 1 + self.rng.usize(2);
                for _ in 0..nb { self.block(depth + 1, true); }
                if self.out.len() == start { self.alu(); }
                self.out[start].labels.push(l.clone());
                self.out.push(s(K::Add(ctr, ctr, Src::Imm(-1)))); self.out.push(s(K::Br(1, lab(&l))));
                self.used("loop");
            }
            8 if self.opts.unbalanced && depth == 0 => self.unbalanced(),
            _ => { // forward conditional skip
                let l = self.fresh("SKIP");
                let r = self.gr();
                self.out.push(s(K::Add(r, r, Src::Imm(0))));
                self.out.push(s(K::Br(1 + self.rng.below(7) as u8, lab(&l))));
                self.alu();
                self.out.push(ls(&l, K::Nop(None)));
                self.used("branch");
            }
        }
    }
}

pub fn gen_user_prog(rng: &mut Rng, opts: &ProgOpts) -> UserProg {
    let nsubs = if opts.calls { rng.usize(4) } else { 0 };
    let mut b = B { rng, out: vec![], n_label: 0, uses: vec![], kbd: 0, opts: opts.clone(), nsubs };
    b.out.push(s(K::Orig(0x3000)));
    if !opts.no_stack { b.out.push(s(K::Ld(6, lab("STACK")))); }
    for r in 0..6u8 { if opts.strict_clean || b.rng.chance(2, 3) { b.out.push(s(K::And(r, r, Src::Imm(0)))); if b.rng.bool() { let v = b.rng.range(-16, 15) as i32; b.out.push(s(K::Add(r, r, Src::Imm(v)))); } } }
    let nb = 1 + b.rng.usize(opts.max_blocks);
    for _ in 0..nb { b.block(0, false); }
    let ending = if opts.faults { *b.rng.pick(&[Ending::Halt, Ending::AcvLoad, Ending::AcvStore, Ending::AcvJump, Ending::PrivRti, Ending::IllegalOpcode, Ending::BadFormat]) } else { Ending::Halt };
    match ending {
        Ending::Halt => b.out.push(s(K::Halt)),
        Ending::AcvLoad => { b.out.push(s(K::Ldi(0, lab("PSUP")))); b.out.push(s(K::Halt)); }
        Ending::AcvStore => { b.out.push(s(K::Sti(0, lab("PSUP")))); b.out.push(s(K::Halt)); }
        Ending::AcvJump => { b.out.push(s(K::Ld(3, lab("PSUP")))); b.out.push(s(K::Jmp(3))); }
        Ending::PrivRti => { b.out.push(s(K::Rti)); b.out.push(s(K::Halt)); }
        Ending::IllegalOpcode => { b.out.push(s(K::Fill(PcOp::Num(0xD000 + b.rng.below(0x1000) as i32)))); b.out.push(s(K::Halt)); }
        Ending::BadFormat => { let w = *b.rng.pick(&[0x8001, 0x4001, 0xC001, 0x1008, 0x5010, 0x903E, 0xF125]); b.out.push(s(K::Fill(PcOp::Num(w)))); b.out.push(s(K::Halt)); }
    }
    // subroutines: SUBk may call SUBj with j > k (acyclic)
    let mut subs = vec![];
    for k in 1..=nsubs {
        let name = format!("SUB{k}");
        subs.push(name.clone());
        let leaf = k == nsubs || opts.no_stack || b.rng.chance(1, 3);
        let start = b.out.len();
        if !leaf { b.out.push(s(K::Add(6, 6, Src::Imm(-1)))); b.out.push(s(K::Str(7, 6, 0))); }
        b.alu();
        if b.rng.bool() { b.mem(); }
        if !leaf { let j = k + 1 + b.rng.usize(nsubs - k); b.out.push(s(K::Jsr(lab(&format!("SUB{j}"))))); b.alu(); b.out.push(s(K::Ldr(7, 6, 0))); b.out.push(s(K::Add(6, 6, Src::Imm(1)))); b.used("nested-call"); }
        if opts.io && !opts.no_stack && b.rng.chance(1, 4) { b.out.push(s(K::Add(6, 6, Src::Imm(-1)))); b.out.push(s(K::Str(7, 6, 0))); b.output(); b.out.push(s(K::Ldr(7, 6, 0))); b.out.push(s(K::Add(6, 6, Src::Imm(1)))); }
        b.out.push(s(K::Ret));
        b.out[start].labels.push(name);
    }
    // data
    let v1 = b.rng.u16() as i32; let v2 = b.rng.u16() as i32;
    b.out.push(ls("VAL1", K::Fill(PcOp::Num(v1))));
    b.out.push(ls("VAL2", K::Fill(PcOp::Num(v2))));
    b.out.push(ls("PTR", K::Fill(lab("BUF"))));
    b.out.push(ls("PSUP", K::Fill(PcOp::Num(*b.rng.pick(&[0x0000, 0x0200, 0x2FFF, 0xFE00, 0xFFFF, 0x01FF])))));
    b.out.push(ls("STACK", K::Fill(PcOp::Num(*b.rng.pick(&[0xFE00, 0xF000, 0x8000, 0x4000])))));
    if opts.strict_clean { for i in 0..8 { let v = b.rng.u16() as i32; b.out.push(if i == 0 { ls("BUF", K::Fill(PcOp::Num(v))) } else { s(K::Fill(PcOp::Num(v))) }); } }
    else { b.out.push(ls("BUF", K::Blkw(8))); }
    let s1: String = (0..b.rng.usize(9)).map(|_| (0x21 + b.rng.below(0x5d) as u8) as char).collect();
    let s2: String = (0..b.rng.usize(5)).map(|_| (0x21 + b.rng.below(0x5d) as u8) as char).collect();
    b.out.push(ls("STR1", K::Stringz(s1)));
    b.out.push(ls("STR2", K::Stringz(s2)));
    // packed string: low byte then high byte, terminated by a zero byte
    let np = b.rng.usize(7);
    let bytes: Vec<u8> = (0..np).map(|_| 0x21 + b.rng.below(0x5d) as u8).collect();
    let mut first = true;
    for ch in bytes.chunks(2) {
        let w = ch[0] as i32 | ((ch.get(1).copied().unwrap_or(0) as i32) << 8);
        let st = if first { ls("PSTR", K::Fill(PcOp::Num(w))) } else { s(K::Fill(PcOp::Num(w))) };
        first = false; b.out.push(st);
    }
    b.out.push(if first { ls("PSTR", K::Fill(PcOp::Num(0))) } else { s(K::Fill(PcOp::Num(0))) });
    b.out.push(s(K::End));
    let stmts = std::mem::take(&mut b.out);
    let (kbd, uses) = (b.kbd, b.uses.clone());
    let r = render(b.rng, &stmts, &Style::plain());
    UserProg { stmts, text: r.text, kbd_needed: kbd, ending, subs, uses }
}

/// An interrupt service routine at `origin` (supervisor memory) that saves the registers it uses on R6,
/// does some work (optionally stores to a supervisor scratch word, optionally reads KBDR), restores and RTIs.
pub fn gen_isr(rng: &mut Rng, origin: u16, read_kbdr: bool) -> String {
    let nregs = 1 + rng.usize(3);
    let regs: Vec<u8> = { let mut v: Vec<u8> = vec![0, 1, 2, 3, 4, 5, 7]; rng.shuffle(&mut v); v.truncate(nregs); v };
    let mut t = format!(".orig x{origin:04X}\n");
    for r in &regs { t.push_str(&format!("ADD R6, R6, #-1\nSTR R{r}, R6, #0\n")); }
    let a = regs[0];
    let n = 1 + rng.usize(4);
    for _ in 0..n {
        let b = *rng.pick(&regs);
        match rng.below(4) { 0 => t.push_str(&format!("ADD R{a}, R{b}, #{}\n", rng.range(-16, 15))), 1 => t.push_str(&format!("AND R{a}, R{b}, #{}\n", rng.range(-16, 15))), 2 => t.push_str(&format!("NOT R{a}, R{b}\n")), _ => t.push_str(&format!("ADD R{a}, R{a}, R{b}\n")) }
    }
    if read_kbdr { t.push_str(&format!("LDI R{a}, ISR_KBDR\n")); }
    if rng.bool() { t.push_str(&format!("ST R{a}, ISR_SCRATCH\n")); }
    for r in regs.iter().rev() { t.push_str(&format!("LDR R{r}, R6, #0\nADD R6, R6, #1\n")); }
    t.push_str("RTI\nISR_SCRATCH .blkw 1\nISR_KBDR .fill xFE02\n.end\n");
    t
}

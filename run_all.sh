#!/bin/sh
# Runs every registered check (tier = $1, default quick) and prints one line per property.
TIER="${1:-quick}"
cd "$(dirname "$0")"
for id in $(target/verif/lc3mon list | cut -d' ' -f1); do
  s=$(date +%s)
  out=$(./check "$id" "$TIER" 2>&1); rc=$?
  e=$(date +%s)
  echo "$id rc=$rc $((e-s))s $(echo "$out" | tail -1 | cut -c1-150)"
  if [ $rc -ne 0 ]; then echo "$out" | grep -E "^(VIOLATION|INCONCLUSIVE)" | cut -c1-300; fi
done

#!/usr/bin/env python3
"""Confirms a sub-agent's seeded change in its scratch worktree and, if confirmed, stores it under /verif/seeded/<ID>-<X>/.
usage: import_mutant.py <ID> <A|B> "<what it needs to manifest>"
Confirmation = (1) patch applies to a clean checkout, (2) crate builds, (3) the 35 existing unit tests pass with it,
(4) the demonstration test fails with it, (5) the demonstration passes without it."""
import json, os, shutil, subprocess, sys
pid, x = sys.argv[1], sys.argv[2]
needs = sys.argv[3] if len(sys.argv) > 3 else ""
wt = f"/tmp/wt/{pid}"
patch = f"{wt}/mutant_{x}.diff"; demo = f"{wt}/tests/demo_{x}.rs"
def run(cmd, **kw): return subprocess.run(cmd, cwd=wt, capture_output=True, text=True, **kw)
def fail(msg): print(f"NOT CONFIRMED {pid}-{x}: {msg}"); sys.exit(1)
if not os.path.isfile(patch) or not os.path.isfile(demo): fail("missing patch or demo")
run(["git", "checkout", "--", "src", "Cargo.toml"])
if run(["git", "status", "--porcelain", "--untracked-files=no"]).stdout.strip(): fail("worktree not clean after checkout")
log = {}
# (5) demo passes without the change
r = run(["cargo", "test", "--offline", "--test", f"demo_{x}"]); log["demo_without_change"] = r.returncode
if r.returncode != 0: fail("demonstration fails on the unmodified code: " + r.stdout[-400:])
# (1) apply
r = run(["git", "apply", patch])
if r.returncode != 0: fail("patch does not apply: " + r.stderr[:300])
try:
    r = run(["cargo", "build", "--offline"]); log["build"] = r.returncode
    if r.returncode != 0: fail("does not build")
    r = run(["cargo", "test", "--offline", "--lib"]); log["unit_tests"] = r.returncode
    passed = [l for l in r.stdout.splitlines() if l.startswith("test result")]
    if r.returncode != 0: fail("existing unit tests fail with the change: " + " ".join(passed))
    log["unit_tests_summary"] = passed[-1] if passed else ""
    r = run(["cargo", "test", "--offline", "--test", f"demo_{x}"]); log["demo_with_change"] = r.returncode
    if r.returncode == 0: fail("demonstration passes with the change applied")
finally:
    run(["git", "checkout", "--", "src", "Cargo.toml"])
dst = f"/verif/seeded/{pid}-{x}"
os.makedirs(dst, exist_ok=True)
shutil.copy(patch, f"{dst}/patch.diff"); shutil.copy(demo, f"{dst}/demo.rs")
notes = ""
if os.path.isfile(f"{wt}/MUTANTS.md"): shutil.copy(f"{wt}/MUTANTS.md", f"{dst}/AGENT_NOTES.md")
meta = {"property": pid, "needs_to_manifest": needs, "origin": "independent sub-agent given only the property text and a scratch worktree",
        "confirmed_by": "import_mutant.py in the scratch worktree: patch applies; cargo build; cargo test --lib (35 unit tests) pass with it; cargo test --test demo fails with it and passes without it",
        "confirmation_log": log, "also_run": []}
json.dump(meta, open(f"{dst}/meta.json", "w"), indent=1)
print(f"CONFIRMED {pid}-{x} -> {dst}")

#!/bin/sh
# ./coverage.sh [tier]     (not a registered check: a measurement of what the workloads reach)
# Builds the harness with -Cinstrument-coverage in a scratch target dir, runs every property's check at the given tier
# (default quick) against /repo's working tree with a scratch VERIF_ROOT (so evidence/ is not touched), and prints the line /
# region coverage of /repo/src plus the list of lines never executed. Scratch data is removed at the end.
TIER="${1:-quick}"
ROOT="$(cd "$(dirname "$0")" && pwd)"
SCR="$(mktemp -d /tmp/lc3cov.XXXXXX)"
SYS="$(rustc +nightly --print sysroot)"; B="$SYS/lib/rustlib/x86_64-unknown-linux-gnu/bin"
trap 'rm -rf "$SCR"' EXIT
export CARGO_NET_OFFLINE=true
mkdir -p "$SCR/prof-build"
( cd "$ROOT/harness" && LLVM_PROFILE_FILE="$SCR/prof-build/b-%p-%8m.profraw" RUSTFLAGS="--cfg endorpersand_lc3_ensemble_verif -Cinstrument-coverage" cargo +nightly build --offline --profile verif --target-dir "$SCR/target" >"$SCR/build.log" 2>&1 ) || { tail -20 "$SCR/build.log"; exit 2; }
mkdir -p "$SCR/root/evidence" "$SCR/prof"
cp "$ROOT/known_findings.json" "$ROOT/properties.jsonl" "$SCR/root/"
export VERIF_ROOT="$SCR/root" VERIF_STAGES=0 LLVM_PROFILE_FILE="$SCR/prof/p-%p-%8m.profraw"
for i in $(seq 1 36); do
    ID=$(printf 'C%02d' "$i")
    ( cd "$SCR/root" && "$SCR/target/verif/lc3mon" check "$ID" "$TIER" 2>&1 | tail -1 )
done
"$B/llvm-profdata" merge -sparse "$SCR"/prof/*.profraw -o "$SCR/cov.profdata" || exit 2
"$B/llvm-cov" report "$SCR/target/verif/lc3mon" -instr-profile="$SCR/cov.profdata" --ignore-filename-regex='(registry|rustc|rustup|harness)' | cut -c1-40,130-330
"$B/llvm-cov" show "$SCR/target/verif/lc3mon" -instr-profile="$SCR/cov.profdata" --ignore-filename-regex='(registry|rustc|rustup|harness)' --show-line-counts-or-regions=false 2>/dev/null >"$SCR/cov.txt"
python3 - "$SCR/cov.txt" <<'EOF'
import re, sys
cur = None
print("\nlines of /repo/src never executed by any workload:")
for line in open(sys.argv[1]):
    m = re.match(r'^(/\S*repo/src/\S+):$', line.strip())
    if m: cur = m.group(1); continue
    m = re.match(r'^\s*(\d+)\|\s*0\|(.*)$', line.rstrip('\n'))
    if m and cur: print(f"{cur}:{m.group(1)}: {m.group(2).strip()[:110]}")
EOF
